// c02_enc_pbf.hpp - independent PBF encoder for check C02.
//
// Written from the published format description (OSM wiki "PBF Format",
// fileformat.proto / osmformat.proto), NOT from libosmium's writer. It turns
// a model data set into the bytes of a .osm.pbf file and varies every free
// encoding choice under the case's Rng. Together with the bytes it returns the
// objects the file *describes* (the oracle).
//
// Choices varied: plain/dense nodes per group, raw/zlib/lz4 per blob, zlib
// level, granularity, lat/lon offset, date granularity per block (the data set
// is first moved onto values for which the spec formula is exact), optional
// Info fields absent one by one or Info absent, HistoricalInformation with
// visible flags, LocationsOnWays, unknown fields (wire types 0,1,2,5, field
// numbers outside the schema) in every message, permuted field order, several
// groups per block, empty groups, blocks without groups, unused / duplicate /
// shuffled string table entries, indexdata and padding in BlobHeaders up to an
// exact requested BlobHeader length, filler up to an exact block size.
//
// Deliberately not produced (would demand more than the specs promise):
// unpacked encoding of [packed=true] fields, missing required fields, groups
// mixing object types, unknown fileblock types, delta values that overflow
// int64, strings longer than the OSM limits.

#ifndef C02_ENC_PBF_HPP
#define C02_ENC_PBF_HPP

#include "model.hpp"
#include "pb.hpp"

#include <algorithm>
#include <map>
#include <numeric>

namespace c02 {

using mdl::Obj;
using mdl::UNDEF;
using i128 = __int128;

inline bool sub_fits(int64_t a, int64_t b) {
    const i128 d = static_cast<i128>(a) - static_cast<i128>(b);
    return d >= std::numeric_limits<int64_t>::min() && d <= std::numeric_limits<int64_t>::max();
}

// All delta-coded sequences *inside one object* (way refs, relation member
// refs) must have differences that fit into int64: the formats define the
// deltas as signed 64 bit numbers and say nothing about wrap-around.
inline void fit_refs(std::vector<Obj>& D) {
    for (auto& o : D) {
        std::vector<int64_t*> v;
        for (auto& n : o.nodes) v.push_back(&n.ref);
        for (auto& m : o.members) v.push_back(&m.ref);
        if (v.empty()) continue;
        int64_t mx = *v[0];
        for (auto* p : v) mx = std::max(mx, *p);
        for (auto* p : v) if (!sub_fits(mx, *p)) *p = mx - std::numeric_limits<int64_t>::max();
    }
}

inline int64_t mod_floor(int64_t a, int64_t m) { const int64_t r = a % m; return r < 0 ? r + m : r; }

struct PbfCfg {
    bool allow_drop_meta = true;     // optional Info fields may be left out (expectation follows)
    bool allow_low = true;           // LocationsOnWays may be used
    bool keep_valid = false;         // coordinate adjustments must keep valid coordinates valid
    bool plain_style = false;        // no unknown fields / permutation / exotic params (used by the framing sweeps)
    int64_t hdr_len[2] = {-1, -1};   // exact BlobHeader length of the header blob / of every data blob
    int64_t block_raw_size = -1;     // exact uncompressed size of the first data block (filler added)
    int filler_kind = 0;             // 0 unknown bytes field, 1 unused string table entries
    int force_compression = -1;      // 0 raw 1 zlib 2 lz4
    int index_data = -1;             // indexdata in BlobHeaders: 0 never, 1 yes, -1 one file out of six
};

struct PbfResult {
    std::string bytes;
    std::vector<Obj> expect;
    std::vector<char> loc_free;      // per object: location not judged (deleted nodes: the schema requires lat/lon, a deleted node has none)
    mdl::Header hexp;
    std::string desc;
    bool history = false, low = false, any_dense = false, any_plain = false, dropped_meta = false;
    bool nondefault_gran = false, nonzero_offset = false, nondefault_dategran = false, unknown = false, permuted = false;
    std::vector<size_t> blob_header_lens;
    size_t max_raw = 0, blocks = 0, groups = 0, empty_groups = 0, empty_blocks = 0, unknown_fields = 0;
    bool padded_exact = true;        // requested exact lengths were reachable
    std::vector<std::string> obj_ctx;   // block parameters of the block each object is in (for violation keys)
};

class PbfEncoder {
    vh::Rng& rng;
    PbfCfg cfg;
    PbfResult res;
    bool permute = false, unknown = false, index_data = false;

    struct Field { int grp; std::string bytes; };

    std::string unknown_field() {
        static const uint32_t nums[] = {64, 99, 127, 128, 200, 1000, 2047, 2048, 16383, 16384, 65535, 1U << 20, 1U << 28, (1U << 29) - 1};
        static const uint64_t vals[] = {0, 1, 127, 128, 16383, 16384, 0xffffffffULL, 0x100000000ULL, ~0ULL, 1ULL << 63};
        const uint32_t fn = rng.coin() ? 64 + static_cast<uint32_t>(rng.below(400)) : rng.pick(nums);
        std::string s;
        switch (rng.below(4)) {
            case 0: pb::put_varint_field(s, fn, rng.coin() ? rng.pick(vals) : rng.next()); break;
            case 1: pb::put_fixed64_field(s, fn, rng.next()); break;
            case 2: {
                std::string payload(static_cast<size_t>(rng.below(rng.chance(1, 8) ? 300 : 12)), '\0');
                for (auto& c : payload) c = static_cast<char>(rng.below(256));
                pb::put_bytes_field(s, fn, payload);
                break;
            }
            default: pb::put_fixed32_field(s, fn, static_cast<uint32_t>(rng.next())); break;
        }
        return s;
    }

    // assemble a message: optional unknown fields, optional permutation; fields
    // with the same grp > 0 (elements of one repeated field) keep their order
    std::string build(std::vector<Field> f, const char* level) {
        if (unknown && rng.chance(1, 2)) {
            int k = 1 + static_cast<int>(rng.below(2));
            while (k--) {
                f.insert(f.begin() + static_cast<long>(rng.below(f.size() + 1)), Field{0, unknown_field()});
                ++res.unknown_fields;
            }
            vh::cover("pbf_unknown_field_in", level);
        }
        if (permute && f.size() > 1) {
            std::vector<size_t> perm(f.size());
            std::iota(perm.begin(), perm.end(), 0);
            rng.shuffle(perm);
            std::map<int, std::vector<size_t>> pos;
            for (size_t k = 0; k < perm.size(); ++k) if (f[perm[k]].grp > 0) pos[f[perm[k]].grp].push_back(k);
            for (auto& kv : pos) {
                std::vector<size_t> orig;
                for (size_t k : kv.second) orig.push_back(perm[k]);
                std::sort(orig.begin(), orig.end());
                for (size_t j = 0; j < orig.size(); ++j) perm[kv.second[j]] = orig[j];
            }
            std::vector<Field> out;
            out.reserve(f.size());
            for (size_t k : perm) out.push_back(std::move(f[k]));
            f.swap(out);
        }
        std::string s;
        for (auto& x : f) s += x.bytes;
        return s;
    }

    static std::string F_varint(uint32_t fn, uint64_t v) { std::string s; pb::put_varint_field(s, fn, v); return s; }
    static std::string F_sint(uint32_t fn, int64_t v) { std::string s; pb::put_sint_field(s, fn, v); return s; }
    static std::string F_bytes(uint32_t fn, const std::string& b) { std::string s; pb::put_bytes_field(s, fn, b); return s; }
    static std::string packed(const std::vector<uint64_t>& v) { std::string s; for (auto x : v) pb::put_varint(s, x); return s; }
    static std::string packed_sdelta(const std::vector<int64_t>& v) {
        std::string s; int64_t prev = 0;
        for (auto x : v) { pb::put_varint(s, pb::zigzag(x - prev)); prev = x; }   // callers guarantee no overflow
        return s;
    }
    static size_t varint_len(uint64_t v) { size_t n = 1; while (v >= 0x80) { v >>= 7; ++n; } return n; }

    // a bytes field (1-byte tag, field number < 16) of exactly `total` bytes; "" if impossible
    static std::string exact_bytes_field(uint32_t fn, size_t total, char fill) {
        for (size_t ll = 1; ll <= 5; ++ll) {
            if (total < 1 + ll) break;
            const size_t n = total - 1 - ll;
            if (varint_len(n) == ll) return F_bytes(fn, std::string(n, fill));
        }
        return "";
    }

    // ------------------------------------------------------------ block level

    struct Block { size_t from, to; int32_t gran = 100; int64_t lat_off = 0, lon_off = 0; int32_t dgran = 1000; };

    struct StringTable {
        std::vector<std::string> tab;
        std::map<std::string, std::vector<uint32_t>> idx;
    };

    uint32_t sid(StringTable& st, const std::string& s, bool allow_zero) {
        auto& v = st.idx[s];
        if (s.empty() && allow_zero && (v.empty() || rng.coin())) return 0;
        return v[rng.below(v.size())];
    }

    int32_t adjust_coord(int32_t c, int64_t m, int64_t r) {
        if (m <= 1) return c;
        int64_t v = static_cast<int64_t>(c) - mod_floor(static_cast<int64_t>(c) - r, m);
        if (v < std::numeric_limits<int32_t>::min()) v += m;
        return static_cast<int32_t>(v);
    }

    void choose_block_params(std::vector<Obj>& D, Block& b) {
        static const int32_t grans[] = {1, 10, 100, 1000, 10000};
        static const int32_t dgrans[] = {1, 500, 1000, 2000, 60000};
        const bool exotic = !cfg.plain_style;
        b.gran = (exotic && rng.coin()) ? rng.pick(grans) : 100;
        b.dgran = (exotic && rng.coin()) ? rng.pick(dgrans) : 1000;
        bool has_undef = false;
        for (size_t i = b.from; i < b.to; ++i) {
            const Obj& o = D[i];
            if (o.type == mdl::NODE && o.visible && o.x == UNDEF) has_undef = true;
            if (o.type == mdl::WAY && res.low) for (const auto& n : o.nodes) if (n.x == UNDEF) has_undef = true;
        }
        // coordinates: nanodegrees = offset + granularity * stored; our unit is 100 nanodegrees
        const int64_t m = b.gran >= 100 ? b.gran / 100 : 1;   // coordinates must be congruent mod m
        auto choose_offset = [&](int64_t& off, int64_t& r) {
            r = 0;
            off = 0;
            if (!exotic || rng.coin()) {
                if (has_undef) { r = mod_floor(UNDEF, m); off = 100 * r; }
                return;
            }
            if (b.gran < 100) {
                // any multiple of the granularity keeps the formula exact
                const int64_t k = rng.coin() ? rng.range(-1000, 1000) : rng.range(-1800000000LL * (100 / b.gran), 1800000000LL * (100 / b.gran));
                off = k * b.gran;
                return;
            }
            int64_t q = rng.coin() ? rng.range(-1000, 1000) : rng.range(-1800000000LL, 1800000000LL);
            if (cfg.keep_valid) q -= mod_floor(q, m);
            if (has_undef) q += mod_floor(static_cast<int64_t>(UNDEF) - q, m);
            r = mod_floor(q, m);
            off = 100 * q;
        };
        int64_t rlat = 0, rlon = 0;
        choose_offset(b.lat_off, rlat);
        choose_offset(b.lon_off, rlon);
        const int64_t k = b.dgran >= 1000 ? b.dgran / 1000 : 1;
        for (size_t i = b.from; i < b.to; ++i) {
            Obj& o = D[i];
            o.timestamp -= static_cast<uint32_t>(o.timestamp % k);
            if (o.type == mdl::NODE && o.x != UNDEF) { o.x = adjust_coord(o.x, m, rlon); o.y = adjust_coord(o.y, m, rlat); }
            if (o.type == mdl::WAY && res.low) for (auto& n : o.nodes) if (n.x != UNDEF) { n.x = adjust_coord(n.x, m, rlon); n.y = adjust_coord(n.y, m, rlat); }
        }
        if (b.gran != 100) res.nondefault_gran = true;
        if (b.lat_off != 0 || b.lon_off != 0) res.nonzero_offset = true;
        if (b.dgran != 1000) res.nondefault_dategran = true;
        vh::cover("pbf_granularity", std::to_string(b.gran));
        vh::cover("pbf_date_granularity", std::to_string(b.dgran));
    }

    // stored coordinate for our unit value c (exact by construction)
    static int64_t stored(int32_t c, int32_t gran, int64_t off) {
        const int64_t nano = static_cast<int64_t>(c) * 100 - off;
        if (nano % gran != 0) throw std::runtime_error{"c02 pbf encoder: coordinate not exactly representable (harness bug)"};
        return nano / gran;
    }
    static int64_t stored_ts(uint32_t t, int32_t dgran) {
        const int64_t ms = static_cast<int64_t>(t) * 1000;
        if (ms % dgran != 0) throw std::runtime_error{"c02 pbf encoder: timestamp not exactly representable (harness bug)"};
        return ms / dgran;
    }

    void build_stringtable(const std::vector<Obj>& D, const Block& b, StringTable& st, size_t filler_bytes) {
        std::vector<std::string> items;
        std::map<std::string, int> seen;
        bool need_nonzero_empty = false;
        auto use = [&](const std::string& s, bool key_or_val) {
            if (s.empty()) { if (key_or_val) need_nonzero_empty = true; return; }
            if (!seen[s]++) items.push_back(s);
        };
        for (size_t i = b.from; i < b.to; ++i) {
            const Obj& o = D[i];
            use(o.user, false);
            for (const auto& t : o.tags) { use(t.k, true); use(t.v, true); }
            for (const auto& m : o.members) use(m.role, false);
        }
        if (need_nonzero_empty || (!cfg.plain_style && rng.chance(1, 6))) items.push_back("");
        if (!cfg.plain_style) {
            // duplicates and unused entries
            const size_t n = items.size();
            for (size_t i = 0; i < n; ++i) if (rng.chance(1, 6)) items.push_back(items[i]);
            size_t junk = rng.chance(1, 3) ? rng.below(6) : 0;
            if (rng.chance(1, 40)) junk = 300;
            for (size_t i = 0; i < junk; ++i) items.push_back(mdl::gen_string(rng, mdl::Charset::any_utf8, 40));
            rng.shuffle(items);
        }
        while (filler_bytes > 0) {
            const size_t n = std::min<size_t>(filler_bytes, 1000);
            items.push_back(std::string(n, 'f'));
            filler_bytes -= n;
        }
        st.tab.clear();
        st.tab.push_back("");
        for (auto& s : items) { st.idx[s].push_back(static_cast<uint32_t>(st.tab.size())); st.tab.push_back(s); }
    }

    // Info message for a plain object; updates the expectation e
    bool make_info(const Obj& o, Obj& e, StringTable& st, const Block& b, std::string& out) {
        std::vector<Field> f;
        const bool drop_all = cfg.allow_drop_meta && o.visible && rng.chance(1, 10);
        auto present = [&](bool is_default) {
            if (drop_all) return false;
            if (cfg.allow_drop_meta && rng.chance(1, 7)) return false;
            if (is_default && rng.coin()) return false;
            return true;
        };
        if (present(o.version == 0)) f.push_back({0, F_varint(1, o.version)}); else if (e.version != 0) { e.version = 0; res.dropped_meta = true; }
        if (present(o.timestamp == 0)) f.push_back({0, F_varint(2, static_cast<uint64_t>(stored_ts(o.timestamp, b.dgran)))}); else if (e.timestamp != 0) { e.timestamp = 0; res.dropped_meta = true; }
        if (present(o.changeset == 0)) f.push_back({0, F_varint(3, o.changeset)}); else if (e.changeset != 0) { e.changeset = 0; res.dropped_meta = true; }
        if (present(o.uid == 0)) f.push_back({0, F_varint(4, o.uid)}); else if (e.uid != 0) { e.uid = 0; res.dropped_meta = true; }
        if (present(o.user.empty())) f.push_back({0, F_varint(5, sid(st, o.user, true))}); else if (!e.user.empty()) { e.user.clear(); res.dropped_meta = true; }
        if (res.history && (!o.visible || rng.coin())) f.push_back({0, F_varint(6, o.visible ? 1 : 0)});
        if (f.empty() && rng.coin()) return false;   // no Info at all
        out = build(f, "Info");
        return true;
    }

    void tags_fields(const Obj& o, StringTable& st, std::vector<Field>& f) {
        if (o.tags.empty() && (cfg.plain_style || !rng.chance(1, 8))) return;
        std::vector<uint64_t> k, v;
        for (const auto& t : o.tags) { k.push_back(sid(st, t.k, false)); v.push_back(sid(st, t.v, false)); }
        f.push_back({0, F_bytes(2, packed(k))});
        f.push_back({0, F_bytes(3, packed(v))});
    }

    std::string plain_node(const Obj& o, Obj& e, char& loc_free, StringTable& st, const Block& b) {
        std::vector<Field> f;
        f.push_back({0, F_sint(1, o.id)});
        tags_fields(o, st, f);
        std::string info;
        if (make_info(o, e, st, b, info)) f.push_back({0, F_bytes(4, info)});
        if (!o.visible) {
            // a deleted node has no location; the fields are required by the schema, what is stored is not judged
            f.push_back({0, F_sint(8, 0)});
            f.push_back({0, F_sint(9, 0)});
            loc_free = 1;
            return build(f, "Node");
        }
        const int32_t x = o.x, y = o.y;
        f.push_back({0, F_sint(8, stored(y, b.gran, b.lat_off))});
        f.push_back({0, F_sint(9, stored(x, b.gran, b.lon_off))});
        return build(f, "Node");
    }

    std::string dense_nodes(const std::vector<Obj>& D, size_t from, size_t to, StringTable& st, const Block& b) {
        std::vector<Field> f;
        std::vector<int64_t> ids, lats, lons, tss, css, uids, usids;
        std::vector<uint64_t> vers, vis, kv;
        bool any_tags = false, any_invisible = false;
        for (size_t i = from; i < to; ++i) {
            const Obj& o = D[i];
            ids.push_back(o.id);
            const int32_t x = o.x, y = o.y;
            if (!o.visible) {
                any_invisible = true;
                res.loc_free[i] = 1;
                lats.push_back(lats.empty() ? 0 : lats.back());
                lons.push_back(lons.empty() ? 0 : lons.back());
            } else {
                lats.push_back(stored(y, b.gran, b.lat_off));
                lons.push_back(stored(x, b.gran, b.lon_off));
            }
            vers.push_back(o.version);
            tss.push_back(stored_ts(o.timestamp, b.dgran));
            css.push_back(o.changeset);
            uids.push_back(o.uid);
            usids.push_back(sid(st, o.user, true));
            vis.push_back(o.visible ? 1 : 0);
            for (const auto& t : o.tags) { kv.push_back(sid(st, t.k, false)); kv.push_back(sid(st, t.v, false)); any_tags = true; }
            kv.push_back(0);
        }
        f.push_back({0, F_bytes(1, packed_sdelta(ids))});
        // DenseInfo: each parallel array present for the whole group or not at all
        std::vector<Field> di;
        const bool drop_all = cfg.allow_drop_meta && !any_invisible && rng.chance(1, 10);
        auto all_default = [&](int which) {
            for (size_t i = from; i < to; ++i) {
                const Obj& o = D[i];
                if ((which == 0 && o.version) || (which == 1 && o.timestamp) || (which == 2 && o.changeset) || (which == 3 && o.uid) || (which == 4 && !o.user.empty())) return false;
            }
            return true;
        };
        auto present = [&](int which) {
            if (drop_all) return false;
            if (cfg.allow_drop_meta && rng.chance(1, 7)) return false;
            if (all_default(which) && rng.coin()) return false;
            return true;
        };
        const bool p_ver = present(0), p_ts = present(1), p_cs = present(2), p_uid = present(3), p_user = present(4);
        for (size_t i = from; i < to; ++i) {
            Obj& e = res.expect[i];
            if (!p_ver && e.version) { e.version = 0; res.dropped_meta = true; }
            if (!p_ts && e.timestamp) { e.timestamp = 0; res.dropped_meta = true; }
            if (!p_cs && e.changeset) { e.changeset = 0; res.dropped_meta = true; }
            if (!p_uid && e.uid) { e.uid = 0; res.dropped_meta = true; }
            if (!p_user && !e.user.empty()) { e.user.clear(); res.dropped_meta = true; }
        }
        if (p_ver) di.push_back({0, F_bytes(1, packed(vers))});
        if (p_ts) di.push_back({0, F_bytes(2, packed_sdelta(tss))});
        if (p_cs) di.push_back({0, F_bytes(3, packed_sdelta(css))});
        if (p_uid) di.push_back({0, F_bytes(4, packed_sdelta(uids))});
        if (p_user) di.push_back({0, F_bytes(5, packed_sdelta(usids))});
        if (res.history && (any_invisible || rng.coin())) di.push_back({0, F_bytes(6, packed(vis))});
        if (!di.empty() || rng.coin()) f.push_back({0, F_bytes(5, build(di, "DenseInfo"))});
        f.push_back({0, F_bytes(8, packed_sdelta(lats))});
        f.push_back({0, F_bytes(9, packed_sdelta(lons))});
        if (any_tags || rng.coin()) f.push_back({0, F_bytes(10, packed(kv))});
        return build(f, "DenseNodes");
    }

    std::string way(const Obj& o, Obj& e, StringTable& st, const Block& b) {
        std::vector<Field> f;
        f.push_back({0, F_varint(1, static_cast<uint64_t>(o.id))});
        tags_fields(o, st, f);
        std::string info;
        if (make_info(o, e, st, b, info)) f.push_back({0, F_bytes(4, info)});
        if (!o.nodes.empty() || (!cfg.plain_style && rng.chance(1, 8))) {
            std::vector<int64_t> refs, lats, lons;
            for (const auto& n : o.nodes) {
                refs.push_back(n.ref);
                if (res.low) { lats.push_back(stored(n.y, b.gran, b.lat_off)); lons.push_back(stored(n.x, b.gran, b.lon_off)); }
            }
            f.push_back({0, F_bytes(8, packed_sdelta(refs))});
            if (res.low && !o.nodes.empty()) { f.push_back({0, F_bytes(9, packed_sdelta(lats))}); f.push_back({0, F_bytes(10, packed_sdelta(lons))}); }
        }
        return build(f, "Way");
    }

    std::string relation(const Obj& o, Obj& e, StringTable& st, const Block& b) {
        std::vector<Field> f;
        f.push_back({0, F_varint(1, static_cast<uint64_t>(o.id))});
        tags_fields(o, st, f);
        std::string info;
        if (make_info(o, e, st, b, info)) f.push_back({0, F_bytes(4, info)});
        if (!o.members.empty() || (!cfg.plain_style && rng.chance(1, 8))) {
            std::vector<uint64_t> roles, types;
            std::vector<int64_t> ids;
            for (const auto& m : o.members) { roles.push_back(sid(st, m.role, true)); ids.push_back(m.ref); types.push_back(static_cast<uint64_t>(m.type - 1)); }
            f.push_back({0, F_bytes(8, packed(roles))});
            f.push_back({0, F_bytes(9, packed_sdelta(ids))});
            f.push_back({0, F_bytes(10, packed(types))});
        }
        return build(f, "Relation");
    }

    std::string empty_group() {
        ++res.empty_groups;
        std::vector<Field> f;
        if (rng.chance(1, 3)) {   // a DenseNodes message without any node
            std::vector<Field> d;
            if (rng.coin()) { d.push_back({0, F_bytes(1, "")}); d.push_back({0, F_bytes(8, "")}); d.push_back({0, F_bytes(9, "")}); }
            f.push_back({0, F_bytes(2, build(d, "DenseNodes"))});
        }
        return build(f, "PrimitiveGroup");
    }

    std::string block(std::vector<Obj>& D, Block& b, bool first_data_block) {
        choose_block_params(D, b);
        for (size_t i = b.from; i < b.to; ++i) {
            res.expect[i] = D[i];
            if (D[i].type == mdl::WAY && !res.low) for (auto& n : res.expect[i].nodes) { n.x = UNDEF; n.y = UNDEF; }
            res.obj_ctx[i] = vh::fmt("granularity=%d offsets=%s date_granularity=%d", b.gran, (b.lat_off || b.lon_off) ? "nonzero" : "zero", b.dgran);
        }
        size_t st_filler = 0;
        if (first_data_block && cfg.block_raw_size > 0 && cfg.filler_kind == 1) st_filler = static_cast<size_t>(cfg.block_raw_size) * 9 / 10;
        StringTable st;
        build_stringtable(D, b, st, st_filler);
        std::vector<Field> bf;
        {
            std::vector<Field> sf;
            for (auto& s : st.tab) sf.push_back({1, F_bytes(1, s)});
            bf.push_back({0, F_bytes(1, build(sf, "StringTable"))});
        }
        // groups: runs of one type, split at random, dense ids must have int64 deltas
        size_t i = b.from;
        auto maybe_empty_group = [&] { if (!cfg.plain_style && rng.chance(1, 10)) bf.push_back({2, F_bytes(2, empty_group())}); };
        while (i < b.to) {
            maybe_empty_group();
            const int type = D[i].type;
            const bool dense = type == mdl::NODE && rng.chance(3, 5);
            size_t j = i + 1;
            const size_t maxlen = rng.chance(1, 3) ? 1 + rng.below(5) : 8000;
            while (j < b.to && D[j].type == type && j - i < maxlen && !(dense && !sub_fits(D[j].id, D[j - 1].id))) ++j;
            std::vector<Field> gf;
            if (dense) {
                gf.push_back({0, F_bytes(2, dense_nodes(D, i, j, st, b))});
                res.any_dense = true;
            } else {
                for (size_t k = i; k < j; ++k) {
                    if (type == mdl::NODE) { gf.push_back({1, F_bytes(1, plain_node(D[k], res.expect[k], res.loc_free[k], st, b))}); res.any_plain = true; }
                    else if (type == mdl::WAY) gf.push_back({1, F_bytes(3, way(D[k], res.expect[k], st, b))});
                    else gf.push_back({1, F_bytes(4, relation(D[k], res.expect[k], st, b))});
                }
            }
            bf.push_back({2, F_bytes(2, build(gf, "PrimitiveGroup"))});
            ++res.groups;
            i = j;
        }
        maybe_empty_group();
        if (b.from == b.to) ++res.empty_blocks;
        if (b.gran != 100 || (!cfg.plain_style && rng.chance(1, 4))) bf.push_back({0, F_varint(17, static_cast<uint64_t>(b.gran))});
        if (b.dgran != 1000 || (!cfg.plain_style && rng.chance(1, 4))) bf.push_back({0, F_varint(18, static_cast<uint64_t>(b.dgran))});
        if (b.lat_off != 0 || (!cfg.plain_style && rng.chance(1, 4))) bf.push_back({0, F_varint(19, static_cast<uint64_t>(b.lat_off))});
        if (b.lon_off != 0 || (!cfg.plain_style && rng.chance(1, 4))) bf.push_back({0, F_varint(20, static_cast<uint64_t>(b.lon_off))});
        std::string raw = build(bf, "PrimitiveBlock");
        if (first_data_block && cfg.block_raw_size > 0) {
            // filler: an unknown bytes field (field number 15: one tag byte) brings the block to the exact size
            const size_t target = static_cast<size_t>(cfg.block_raw_size);
            std::string pad;
            if (raw.size() < target) pad = exact_bytes_field(15, target - raw.size(), 'p');
            if (raw.size() + pad.size() != target) res.padded_exact = false;
            if (rng.coin()) raw += pad; else raw = pad + raw;
        }
        ++res.blocks;
        return raw;
    }

    // ------------------------------------------------------------ blob level

    std::string blob(const std::string& raw) {
        res.max_raw = std::max(res.max_raw, raw.size());
        int comp = cfg.force_compression >= 0 ? cfg.force_compression : static_cast<int>(rng.below(3));
        if (raw.empty() && comp == 2) comp = 0;
        std::vector<Field> f;
        if (comp == 0) {
            f.push_back({0, F_bytes(1, raw)});
            vh::cover("pbf_blob", "raw");
        } else if (comp == 1) {
            static const int levels[] = {0, 1, 6, 9};
            const int level = raw.size() > (4U << 20) ? 1 : rng.pick(levels);
            f.push_back({0, F_varint(2, raw.size())});
            f.push_back({0, F_bytes(3, pb::zlib_deflate(raw, level))});
            vh::cover("pbf_blob", vh::fmt("zlib level %d", level));
        } else {
            f.push_back({0, F_varint(2, raw.size())});
            f.push_back({0, F_bytes(6, pb::lz4_deflate(raw))});
            vh::cover("pbf_blob", "lz4");
        }
        return build(f, "Blob");
    }

    void fileblock(const char* type, const std::string& blobmsg, int64_t want_len) {
        std::vector<Field> f;
        f.push_back({0, F_bytes(1, type)});
        f.push_back({0, F_varint(3, blobmsg.size())});
        // (indexdata in one file out of six only: while a reader mishandles long BlobHeaders the
        // other files still exercise everything else; the length sweep has its own mode)
        if (want_len < 0 && !cfg.plain_style && index_data) {
            std::string idx(static_cast<size_t>(rng.chance(1, 4) ? rng.below(70000 - 100) : rng.below(300)), '\0');
            for (auto& c : idx) c = static_cast<char>(rng.below(256));
            if (idx.size() > 64000) idx.resize(64000);
            f.push_back({0, F_bytes(2, idx)});
        }
        std::string h = build(f, "BlobHeader");
        if (want_len >= 0) {
            // reach the exact length with indexdata (and, where the varint length makes a
            // size unreachable, one more unknown varint field of 2 bytes)
            const size_t target = static_cast<size_t>(want_len);
            bool ok = h.size() == target;
            if (!ok && h.size() < target) {
                std::string pad = exact_bytes_field(2, target - h.size(), 'i');
                std::string extra;
                if (pad.empty() && target - h.size() > 4) { extra = F_varint(12, 1); pad = exact_bytes_field(2, target - h.size() - extra.size(), 'i'); }
                if (!pad.empty()) { for (size_t k = 6; k < pad.size(); k += 7) pad[k] = static_cast<char>(rng.below(256)); h = rng.coin() ? h + extra + pad : pad + h + extra; ok = true; }
            }
            if (!ok || h.size() != target) res.padded_exact = false;
        }
        if (h.size() >= 65536) throw std::runtime_error{"c02 pbf encoder: BlobHeader too long (harness bug)"};
        res.blob_header_lens.push_back(h.size());
        const uint32_t n = static_cast<uint32_t>(h.size());
        res.bytes += static_cast<char>(n >> 24);
        res.bytes += static_cast<char>((n >> 16) & 0xff);
        res.bytes += static_cast<char>((n >> 8) & 0xff);
        res.bytes += static_cast<char>(n & 0xff);
        res.bytes += h;
        res.bytes += blobmsg;
    }

    std::string header_block(const mdl::Header& H, bool declare_dense) {
        std::vector<Field> f;
        if (!H.boxes.empty()) {
            const mdl::Box& bx = H.boxes[0];
            std::vector<Field> bf;
            bf.push_back({0, F_sint(1, static_cast<int64_t>(bx.x1) * 100)});
            bf.push_back({0, F_sint(2, static_cast<int64_t>(bx.x2) * 100)});
            bf.push_back({0, F_sint(3, static_cast<int64_t>(bx.y2) * 100)});
            bf.push_back({0, F_sint(4, static_cast<int64_t>(bx.y1) * 100)});
            f.push_back({0, F_bytes(1, build(bf, "HeaderBBox"))});
            res.hexp.boxes.push_back(bx);
        }
        std::vector<std::string> req{"OsmSchema-V0.6"};
        if (declare_dense) req.push_back("DenseNodes");
        if (res.history) req.push_back("HistoricalInformation");
        if (!cfg.plain_style) rng.shuffle(req);
        for (auto& s : req) f.push_back({1, F_bytes(4, s)});
        std::vector<std::string> opt;
        if (res.low) opt.push_back("LocationsOnWays");
        if (!cfg.plain_style) {
            if (rng.chance(1, 3)) opt.push_back("Has_Metadata");
            if (rng.chance(1, 5)) opt.push_back("SomeFutureOptionalFeature-" + std::to_string(rng.below(100)));
            rng.shuffle(opt);
        }
        for (auto& s : opt) f.push_back({2, F_bytes(5, s)});
        if (!H.generator.empty()) { f.push_back({0, F_bytes(16, H.generator)}); res.hexp.generator = H.generator; }
        if (!cfg.plain_style) {
            if (rng.chance(1, 4)) f.push_back({0, F_bytes(17, "http://www.openstreetmap.org/api/0.6")});
            if (rng.chance(1, 5)) f.push_back({0, F_varint(32, 1400000000 + rng.below(400000000))});
            if (rng.chance(1, 5)) f.push_back({0, F_varint(33, rng.below(5000000))});
            if (rng.chance(1, 5)) f.push_back({0, F_bytes(34, "https://planet.osm.org/replication/minute")});
        }
        res.hexp.multiple_versions = res.history;
        return build(f, "HeaderBlock");
    }

public:
    PbfEncoder(vh::Rng& r, const PbfCfg& c) : rng(r), cfg(c) {}

    // D is moved onto exactly representable values (coordinates, timestamps) first
    PbfResult encode(std::vector<Obj>& D, const mdl::Header& H) {
        const size_t n = D.size();
        res.expect.assign(n, Obj{});
        res.loc_free.assign(n, 0);
        res.obj_ctx.assign(n, "");
        bool any_invisible = false;
        for (const auto& o : D) if (!o.visible) any_invisible = true;
        res.history = any_invisible || (!cfg.plain_style && rng.chance(1, 3));
        res.low = cfg.allow_low && !cfg.plain_style && rng.chance(1, 4);
        permute = !cfg.plain_style && rng.coin();
        unknown = !cfg.plain_style && rng.coin();
        index_data = !cfg.plain_style && (cfg.index_data >= 0 ? cfg.index_data == 1 : rng.chance(1, 6));
        res.permuted = permute;
        res.unknown = unknown;
        // blocks
        std::vector<Block> blocks;
        {
            size_t i = 0;
            const int style = static_cast<int>(rng.below(3));
            while (i < n) {
                size_t len = n - i;
                if (style == 1) len = 1 + rng.below(std::min<size_t>(len, 8));
                else if (style == 2) len = 1 + rng.below(len);
                if (len > 8000) len = 8000;
                Block b; b.from = i; b.to = i + len;
                blocks.push_back(b);
                i += len;
                if (!cfg.plain_style && rng.chance(1, 12)) { Block e; e.from = i; e.to = i; blocks.push_back(e); }   // a block without objects
            }
            if (n == 0 && (cfg.block_raw_size > 0 || rng.coin())) { Block e; e.from = 0; e.to = 0; blocks.push_back(e); }
        }
        std::vector<std::string> raws;
        bool first = true;
        for (auto& b : blocks) { raws.push_back(block(D, b, first)); first = false; }
        const bool declare_dense = res.any_dense || (!cfg.plain_style && rng.coin());
        fileblock("OSMHeader", blob(header_block(H, declare_dense)), cfg.hdr_len[0]);
        for (auto& r : raws) fileblock("OSMData", blob(r), cfg.hdr_len[1]);
        res.desc = vh::fmt("pbf: %zu objects, %zu blocks, %zu groups (%zu empty), history=%d locations_on_ways=%d permuted_fields=%d unknown_fields=%zu dropped_meta=%d",
                           n, res.blocks, res.groups, res.empty_groups, res.history, res.low, permute, res.unknown_fields, res.dropped_meta);
        return std::move(res);
    }
};

} // namespace c02

#endif // C02_ENC_PBF_HPP
