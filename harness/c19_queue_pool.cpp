// C19 - thread-safe queue is FIFO and loss-free; the pool runs every task once.
//
// Client-boundary histories: every push/pop is logged per thread with a global
// logical clock (call tick before invoking, return tick after the reply) and
// checked offline after the threads were joined:
//   * multiset(popped) == multiset(pushed)            (no loss, no duplicate)
//   * per producer, pops are in seq order per consumer and in real time:
//     there are no two elements a<b of one producer with ret(pop b) < call(pop a)
//   * queue size (hook, under the queue's own lock) <= max + producers - 1
//     (== max for one producer)
//   * a producer blocks at the bound; every consumer wakes on shutdown()
//   * pool: every task ran exactly once, future carries its value/exception,
//     destroying the pool runs queued tasks and joins all workers
// Schedules are perturbed through the OSMIUM_VERIF hooks (seeded yields and
// sleeps between the critical sections); the interleaving signature of every
// run is part of the distinct-case hash.

#include "vh.hpp"
#include "vh_hooks.hpp"

#include <osmium/thread/pool.hpp>
#include <osmium/thread/queue.hpp>
#include <osmium/thread/util.hpp>

#include <algorithm>
#include <atomic>
#include <chrono>
#include <dirent.h>
#include <future>
#include <thread>

namespace {

std::atomic<uint64_t> g_clock{0};
// Under TSan the logical clock must not create happens-before edges (it would
// hide races inside the queue), so it is relaxed there; RMWs on one variable
// are still totally ordered.
#ifdef __SANITIZE_THREAD__
inline uint64_t tick() { return g_clock.fetch_add(1, std::memory_order_relaxed); }
#else
inline uint64_t tick() { return g_clock.fetch_add(1, std::memory_order_seq_cst); }
#endif

int thread_count() {
    int n = 0;
    if (DIR* d = ::opendir("/proc/self/task")) {
        while (auto* e = ::readdir(d)) if (e->d_name[0] != '.') ++n;
        ::closedir(d);
    }
    return n;
}

void hooks_reset(uint64_t seed, uint32_t permille, uint32_t max_sleep) {
    vhk::reset(seed, permille, max_sleep);
    vhk::hs().max_queue_depth = 0;
    vhk::hs().bound_excess_max = 0;
    vhk::hs().pushes = 0;
    vhk::hs().pops = 0;
}

struct PopRec { uint64_t token, call, ret; };
constexpr uint64_t SENTINEL = ~0ULL;
inline uint64_t make_token(unsigned producer, uint64_t seq) { return (static_cast<uint64_t>(producer) << 40) | seq; }

// wait until pred() or the watchdog (bounded progress) expires
// Bounded progress, not a wall-clock deadline: the watchdog fires only when the predicate is false
// AND the number of queue events (hook counters, updated under the queue's own lock) has not
// changed for `seconds`.
template <typename F> bool wait_for(F&& pred, int seconds = 30) {
    auto last_change = std::chrono::steady_clock::now();
    uint64_t last_events = vhk::hs().pushes.load() + vhk::hs().pops.load() + vhk::hs().events.load();
    while (!pred()) {
        const uint64_t ev = vhk::hs().pushes.load() + vhk::hs().pops.load() + vhk::hs().events.load();
        const auto now = std::chrono::steady_clock::now();
        if (ev != last_events) { last_events = ev; last_change = now; }
        else if (now - last_change > std::chrono::seconds(seconds)) return false;
        std::this_thread::sleep_for(std::chrono::milliseconds(1));
        vh::heartbeat();
    }
    return true;
}

void case_fifo(uint64_t idx, vh::Rng& rng) {
    const unsigned P = 1 + static_cast<unsigned>(rng.below(8));
    const unsigned C = 1 + static_cast<unsigned>(rng.below(8));
    const size_t bound = rng.pick(std::vector<size_t>{0, 1, 2, 3, 10});
    const uint64_t N = rng.pick(std::vector<uint64_t>{1, 10, 100, 300, 1000}) * (vh::thorough() && rng.chance(1, 10) ? 20 : 1);
    const bool use_try_pop = rng.chance(1, 4);
    const uint32_t permille = rng.pick(std::vector<uint32_t>{0, 50, 200, 600});
    hooks_reset(rng.next() | 1, permille, rng.pick(std::vector<uint32_t>{20, 100, 300}));
    vh::set_case_desc("fifo P=%u C=%u bound=%zu N=%" PRIu64 " try_pop=%d perturb=%u", P, C, bound, N, use_try_pop, permille);
    const std::string cfg = vh::fmt("P=%u C=%u bound=%zu", P, C, bound);

    osmium::thread::Queue<uint64_t> queue{bound, "verif"};
    std::vector<std::vector<PopRec>> pops(C);
    std::atomic<unsigned> consumers_done{0};
    std::vector<std::thread> threads;
    for (unsigned c = 0; c < C; ++c) {
        threads.emplace_back([&, c] {
            auto& log = pops[c];
            while (true) {
                uint64_t v = SENTINEL - 1;
                const uint64_t t0 = tick();
                if (use_try_pop && (c & 1U)) {
                    if (!queue.try_pop(v)) { std::this_thread::yield(); continue; }
                } else {
                    queue.wait_and_pop(v);
                }
                const uint64_t t1 = tick();
                if (v == SENTINEL) break;
                log.push_back(PopRec{v, t0, t1});
            }
            ++consumers_done;
        });
    }
    std::atomic<unsigned> producers_done{0};
    for (unsigned p = 0; p < P; ++p) {
        threads.emplace_back([&, p] {
            for (uint64_t s = 0; s < N; ++s) queue.push(make_token(p, s));
            ++producers_done;
        });
    }
    if (!wait_for([&] { return producers_done.load() == P; })) {
        vh::violation("queue: producers make no progress (hang)", cfg); vh::abort_shard_after_hang(vh::st().range_to - vh::st().current_case.load() - 1);
        for (auto& t : threads) t.detach();
        return;
    }
    for (unsigned c = 0; c < C; ++c) queue.push(SENTINEL);
    if (!wait_for([&] { return consumers_done.load() == C; })) {
        vh::violation("queue: consumers make no progress (hang)", cfg); vh::abort_shard_after_hang(vh::st().range_to - vh::st().current_case.load() - 1);
        for (auto& t : threads) t.detach();
        return;
    }
    for (auto& t : threads) t.join();

    // ---- offline checks
    std::vector<PopRec> all;
    for (auto& l : pops) all.insert(all.end(), l.begin(), l.end());
    if (all.size() != static_cast<size_t>(P) * N)
        vh::violation(all.size() < static_cast<size_t>(P) * N ? "queue: elements lost" : "queue: elements duplicated", vh::fmt("%s pushed %" PRIu64 " popped %zu", cfg.c_str(), P * N, all.size()));
    std::sort(all.begin(), all.end(), [](const PopRec& a, const PopRec& b) { return a.token < b.token; });
    for (size_t i = 1; i < all.size(); ++i) if (all[i].token == all[i - 1].token) { vh::violation("queue: element delivered twice", cfg); break; }
    // expected token set
    {
        size_t k = 0; bool ok = all.size() == static_cast<size_t>(P) * N;
        for (unsigned p = 0; ok && p < P; ++p) for (uint64_t s = 0; s < N; ++s) if (all[k++].token != make_token(p, s)) { ok = false; break; }
        if (!ok && all.size() == static_cast<size_t>(P) * N) vh::violation("queue: popped elements are not the pushed elements", cfg);
    }
    // real-time FIFO per producer: sorted by token = by (producer, seq)
    {
        size_t i = 0;
        while (i < all.size()) {
            const uint64_t prod = all[i].token >> 40;
            uint64_t max_call = 0; bool have = false;
            for (; i < all.size() && (all[i].token >> 40) == prod; ++i) {
                if (have && max_call > all[i].ret) { vh::violation("queue: FIFO order violated within one producer", vh::fmt("%s producer %" PRIu64, cfg.c_str(), prod)); break; }
                if (!have || all[i].call > max_call) { max_call = all[i].call; have = true; }
            }
            while (i < all.size() && (all[i].token >> 40) == prod) ++i;
        }
    }
    // per consumer: seqs of one producer strictly increasing
    for (auto& l : pops) {
        std::vector<int64_t> last(P, -1);
        for (auto& r : l) {
            const auto p = static_cast<unsigned>(r.token >> 40);
            const auto s = static_cast<int64_t>(r.token & ((1ULL << 40) - 1));
            if (p < P) { if (s <= last[p]) { vh::violation("queue: consumer saw elements of one producer out of order", cfg); break; } last[p] = s; }
        }
    }
    // bound
    const uint64_t excess = vhk::hs().bound_excess_max.load();
    if (bound && excess > P - 1) vh::violation(P == 1 ? "queue: size exceeds its bound with a single producer" : "queue: size exceeds bound + producers - 1", vh::fmt("%s excess %" PRIu64, cfg.c_str(), excess));
    vh::count_max("max_queue_depth", vhk::hs().max_queue_depth.load());
    if (bound && vhk::hs().max_queue_depth.load() >= bound) vh::count("runs_reaching_bound");
    vh::count("queue_histories");
    vh::count("elements_transferred", all.size());
    vh::count("hook_events", vhk::hs().events.load());
    vh::evaluated();
    vh::distinct(vh::hash_u64(vhk::signature(), vh::hash_str(cfg)));
    vh::cover("queue_config", cfg);
    if (idx % 200 == 0) vh::sample_str(vh::fmt("fifo history %s N=%" PRIu64 ": %zu pops, interleaving signature %016" PRIx64 ", max depth %" PRIu64, cfg.c_str(), N, all.size(), vhk::signature(), vhk::hs().max_queue_depth.load()));
}

void case_blocking(uint64_t, vh::Rng& rng) {
    const size_t bound = 1 + rng.below(5);
    hooks_reset(rng.next() | 1, rng.pick(std::vector<uint32_t>{0, 200}), 50);
    vh::set_case_desc("blocking bound=%zu", bound);
    osmium::thread::Queue<uint64_t> queue{bound, "verif"};
    std::atomic<uint64_t> completed{0};
    std::thread producer{[&] { for (uint64_t s = 0; s < bound + 1; ++s) { queue.push(s); ++completed; } }};
    if (!wait_for([&] { return completed.load() >= bound; })) { vh::violation("queue: push below the bound does not return", vh::fmt("bound %zu", bound)); vh::abort_shard_after_hang(vh::st().range_to - vh::st().current_case.load() - 1); producer.detach(); return; }
    std::this_thread::sleep_for(std::chrono::milliseconds(30));   // grace: a late erroneous return can only be missed
    if (completed.load() > bound) vh::violation("queue: producer not blocked at the size bound", vh::fmt("bound %zu", bound));
    else vh::count("blocked_push_observed");
    uint64_t v = 99;
    queue.wait_and_pop(v);
    if (v != 0) vh::violation("queue: first popped element is not the first pushed", vh::fmt("got %" PRIu64, v));
    if (!wait_for([&] { return completed.load() == bound + 1; })) { vh::violation("queue: blocked producer not released after a pop (hang)", vh::fmt("bound %zu", bound)); vh::abort_shard_after_hang(vh::st().range_to - vh::st().current_case.load() - 1); producer.detach(); return; }
    producer.join();
    for (uint64_t s = 1; s < bound + 1; ++s) { queue.wait_and_pop(v); if (v != s) vh::violation("queue: FIFO order violated (single thread)", vh::fmt("expected %" PRIu64 " got %" PRIu64, s, v)); }
    if (!queue.empty() || queue.size() != 0) vh::violation("queue: not empty after draining", "");
    vh::evaluated();
    vh::distinct(vh::hash_u64(vhk::signature(), vh::hash_u64(bound)));
}

void case_shutdown(uint64_t, vh::Rng& rng) {
    const unsigned C = 1 + static_cast<unsigned>(rng.below(8));
    const size_t bound = rng.pick(std::vector<size_t>{0, 2, 10});
    const unsigned preload = static_cast<unsigned>(rng.below(3));
    hooks_reset(rng.next() | 1, rng.pick(std::vector<uint32_t>{0, 200, 600}), 100);
    vh::set_case_desc("shutdown C=%u bound=%zu preload=%u", C, bound, preload);
    osmium::thread::Queue<uint64_t> queue{bound, "verif"};
    std::atomic<unsigned> returned{0}, got_value{0};
    std::vector<std::thread> threads;
    for (unsigned c = 0; c < C; ++c) threads.emplace_back([&] { uint64_t v = SENTINEL; queue.wait_and_pop(v); if (v != SENTINEL) ++got_value; ++returned; });
    std::this_thread::sleep_for(std::chrono::milliseconds(rng.below(4)));
    for (unsigned i = 0; i < preload && i < C; ++i) queue.push(i);
    std::this_thread::sleep_for(std::chrono::milliseconds(rng.below(3)));
    queue.shutdown();
    if (!wait_for([&] { return returned.load() == C; })) {
        vh::violation("queue: a consumer is still blocked after shutdown()", vh::fmt("C=%u returned=%u", C, returned.load())); vh::abort_shard_after_hang(vh::st().range_to - vh::st().current_case.load() - 1);
        for (auto& t : threads) t.detach();
        return;
    }
    for (auto& t : threads) t.join();
    if (got_value.load() > preload) vh::violation("queue: consumers received more elements than were pushed", "");
    if (queue.in_use()) vh::violation("queue: in_use() true after shutdown", "");
    queue.push(7);   // ignored after shutdown
    if (!queue.empty()) vh::violation("queue: push after shutdown not ignored", "");
    vh::count("shutdown_wakeups", C);
    vh::evaluated();
    vh::distinct(vh::hash_u64(vhk::signature(), vh::hash_u64(C * 100 + bound * 10 + preload)));
}

struct TaskError : public std::runtime_error { int n; explicit TaskError(int i) : std::runtime_error("task error"), n(i) {} };

void case_pool(uint64_t idx, vh::Rng& rng) {
    const int nthreads = static_cast<int>(rng.pick(std::vector<int>{1, 2, 3, 4, 8, 16, 32}));
    const size_t qsize = rng.pick(std::vector<size_t>{1, 2, 10, 50});
    const unsigned ntasks = static_cast<unsigned>(rng.pick(std::vector<unsigned>{1, 5, 50, 300}));
    const unsigned submitters = 1 + static_cast<unsigned>(rng.below(3));
    const bool destroy_with_queued = rng.coin();
    hooks_reset(rng.next() | 1, rng.pick(std::vector<uint32_t>{0, 100, 400}), 100);
    vh::set_case_desc("pool threads=%d queue=%zu tasks=%u submitters=%u destroy_with_queued=%d", nthreads, qsize, ntasks, submitters, destroy_with_queued);
    const std::string cfg = vh::fmt("threads=%d queue=%zu", nthreads, qsize);
    const int base_threads = thread_count();
    std::vector<std::atomic<int>> runs(static_cast<size_t>(ntasks) * submitters);
    for (auto& r : runs) r = 0;
    std::vector<std::vector<std::future<int>>> futs(submitters);
    std::vector<int> kinds(runs.size());
    for (auto& k : kinds) k = static_cast<int>(rng.below(4));  // 0 value fast, 1 value slow, 2 throws, 3 value yield
    {
        osmium::thread::Pool pool{nthreads, qsize};
        if (pool.num_threads() != nthreads) vh::violation("pool: wrong number of threads", cfg);
        std::vector<std::thread> subs;
        for (unsigned s = 0; s < submitters; ++s) {
            subs.emplace_back([&, s] {
                for (unsigned i = 0; i < ntasks; ++i) {
                    const size_t id = static_cast<size_t>(s) * ntasks + i;
                    const int kind = kinds[id];
                    futs[s].push_back(pool.submit([&runs, id, kind]() -> int {
                        ++runs[id];
                        if (kind == 1) std::this_thread::sleep_for(std::chrono::microseconds(200));
                        if (kind == 3) std::this_thread::yield();
                        if (kind == 2) throw TaskError{static_cast<int>(id)};
                        return static_cast<int>(id) * 3 + 1;
                    }));
                }
            });
        }
        for (auto& t : subs) t.join();
        if (!destroy_with_queued) {
            for (unsigned s = 0; s < submitters; ++s) for (auto& f : futs[s]) f.wait();
        }
        // leaving the scope destroys the pool: queued tasks must still run, workers are joined
    }
    // a joined thread can stay visible in /proc/self/task for a moment (the kernel
    // wakes the joiner before the task entry is removed): poll before judging
    wait_for([&] { return thread_count() <= base_threads; }, 5);
    if (thread_count() != base_threads) vh::violation("pool: worker threads not joined on destruction", vh::fmt("%s threads %d -> %d", cfg.c_str(), base_threads, thread_count()));
    for (unsigned s = 0; s < submitters; ++s) {
        for (unsigned i = 0; i < ntasks; ++i) {
            const size_t id = static_cast<size_t>(s) * ntasks + i;
            const int r = runs[id].load();
            if (r != 1) { vh::violation(r == 0 ? "pool: a submitted task never ran" : "pool: a task ran more than once", vh::fmt("%s task %zu ran %d times destroy_with_queued=%d", cfg.c_str(), id, r, destroy_with_queued)); continue; }
            auto& f = futs[s][i];
            if (f.wait_for(std::chrono::seconds(0)) != std::future_status::ready) { vh::violation("pool: future not ready after the pool was destroyed", cfg); continue; }
            try {
                const int v = f.get();
                if (kinds[id] == 2) vh::violation("pool: exception of a task did not arrive in the future", cfg);
                else if (v != static_cast<int>(id) * 3 + 1) vh::violation("pool: future carries the wrong value", cfg);
            } catch (const TaskError& e) {
                if (kinds[id] != 2 || e.n != static_cast<int>(id)) vh::violation("pool: future carries the wrong exception", cfg);
                vh::count("task_exceptions_delivered");
            } catch (...) {
                vh::violation("pool: future carries an unexpected exception", cfg);
            }
        }
    }
    vh::count("pool_histories");
    vh::count("tasks_run", runs.size());
    if (destroy_with_queued) vh::count("pools_destroyed_with_pending_work");
    vh::count("hook_events", vhk::hs().events.load());
    vh::evaluated();
    vh::distinct(vh::hash_u64(vhk::signature(), vh::hash_str(cfg)));
    vh::cover("pool_config", cfg);
    if (idx % 100 == 0) vh::sample_str(vh::fmt("pool history %s: %zu tasks from %u submitters, signature %016" PRIx64, cfg.c_str(), runs.size(), submitters, vhk::signature()));
}

void case_config(uint64_t, vh::Rng&) {
    // get_pool_size arithmetic (pure function)
    using osmium::thread::detail::get_pool_size;
    struct T { int n, user; unsigned hw; int expect; };
    const T tests[] = {{1, 0, 4, 1}, {4, 0, 2, 4}, {0, 0, 16, 14}, {0, 3, 16, 3}, {-1, 0, 8, 7}, {-100, 0, 8, 1}, {100, 0, 8, 32}, {0, -20, 8, 1}, {32, 0, 1, 32}, {33, 0, 1, 32}};
    for (const auto& t : tests) if (get_pool_size(t.n, t.user, t.hw) != t.expect) vh::violation("pool: get_pool_size wrong", vh::fmt("(%d,%d,%u)", t.n, t.user, t.hw));
    vh::evaluated();
    vh::distinct(1);
}

// Every case body runs in its own runner thread; the main thread is the
// bounded-progress watchdog. If the body does not finish (a push that never
// returns, a pool destructor that never joins, ...) the hang is reported and
// the process stops (stuck threads may reference the case's stack).
template <void (*Body)(uint64_t, vh::Rng&)>
void guarded(uint64_t idx, vh::Rng& rng) {
    std::atomic<bool> done{false};
    std::thread runner{[&] { Body(idx, rng); done = true; }};
    if (!wait_for([&] { return done.load(); }, 120)) {
        vh::violation("hang: operation did not finish within the bounded-progress watchdog", vh::st().case_desc);
        runner.detach();
        vh::abort_shard_after_hang(vh::st().range_to - vh::st().current_case.load() - 1);
    }
    runner.join();
}

} // namespace

int main(int argc, char** argv) {
    vh::parse_args(argc, argv);
    const std::string mode = vh::arg("mode", "fifo");
    // sanitizer runtimes start a background thread with the first thread
    // creation; do that before any thread-count baseline is taken
    { std::thread warmup{[] {}}; warmup.join(); }
    if (mode == "fifo") return vh::run_cases(argc, argv, 1000, guarded<case_fifo>);
    if (mode == "blocking") return vh::run_cases(argc, argv, 100, guarded<case_blocking>);
    if (mode == "shutdown") return vh::run_cases(argc, argv, 300, guarded<case_shutdown>);
    if (mode == "pool") return vh::run_cases(argc, argv, 600, guarded<case_pool>);
    return vh::run_cases(argc, argv, 1, case_config);
}
