// model.hpp - a plain object model of OSM data that is independent of
// libosmium's buffer layout, converters model<->buffer through the *public*
// builders/accessors, seeded boundary-heavy generators and a field-by-field
// comparison. Shared by the I/O checks (C01 C02 C03 C05 C06 C07 C08).

#ifndef VH_MODEL_HPP
#define VH_MODEL_HPP

#include "vh.hpp"

#include <osmium/builder/osm_object_builder.hpp>
#include <osmium/memory/buffer.hpp>
#include <osmium/osm.hpp>
#include <osmium/osm/changeset.hpp>

#include <limits>
#include <string>
#include <vector>

namespace mdl {

constexpr int32_t UNDEF = 2147483647;

struct Tag { std::string k, v; };
struct NodeRef { int64_t ref = 0; int32_t x = UNDEF, y = UNDEF; };
struct Member { int type = 1; int64_t ref = 0; std::string role; };  // type: 1 node 2 way 3 relation
struct Comment { uint32_t date = 0; uint32_t uid = 0; std::string user, text; };

enum ObjType { NODE = 0, WAY = 1, RELATION = 2, CHANGESET = 3 };

struct Obj {
    int type = NODE;
    int64_t id = 0;
    uint32_t version = 0;
    bool visible = true;
    uint32_t timestamp = 0;
    uint32_t changeset = 0;
    uint32_t uid = 0;
    std::string user;
    int32_t x = UNDEF, y = UNDEF;          // node location
    std::vector<Tag> tags;
    std::vector<NodeRef> nodes;            // way
    std::vector<Member> members;           // relation
    // changeset only:
    uint32_t created_at = 0, closed_at = 0, num_changes = 0, num_comments = 0;
    int32_t bx1 = UNDEF, by1 = UNDEF, bx2 = UNDEF, by2 = UNDEF;
    std::vector<Comment> comments;
};

struct Box { int32_t x1 = UNDEF, y1 = UNDEF, x2 = UNDEF, y2 = UNDEF; };

struct Header {
    std::vector<Box> boxes;
    std::string generator;
    bool multiple_versions = false;
};

// ------------------------------------------------------------------ to buffer

inline void add_tags(osmium::memory::Buffer& buf, osmium::builder::Builder& parent, const std::vector<Tag>& tags) {
    if (tags.empty()) return;
    osmium::builder::TagListBuilder tb{buf, &parent};
    for (const auto& t : tags) tb.add_tag(t.k, t.v);
}

inline void to_buffer(const Obj& o, osmium::memory::Buffer& buf) {
    using namespace osmium::builder;
    switch (o.type) {
        case NODE: {
            NodeBuilder b{buf};
            b.set_id(o.id).set_version(o.version).set_visible(o.visible).set_timestamp(osmium::Timestamp{o.timestamp})
             .set_changeset(o.changeset).set_uid(o.uid).set_location(osmium::Location{o.x, o.y}).set_user(o.user);
            add_tags(buf, b, o.tags);
            break;
        }
        case WAY: {
            WayBuilder b{buf};
            b.set_id(o.id).set_version(o.version).set_visible(o.visible).set_timestamp(osmium::Timestamp{o.timestamp})
             .set_changeset(o.changeset).set_uid(o.uid).set_user(o.user);
            add_tags(buf, b, o.tags);
            if (!o.nodes.empty()) {
                WayNodeListBuilder nb{buf, &b};
                for (const auto& n : o.nodes) nb.add_node_ref(n.ref, osmium::Location{n.x, n.y});
            }
            break;
        }
        case RELATION: {
            RelationBuilder b{buf};
            b.set_id(o.id).set_version(o.version).set_visible(o.visible).set_timestamp(osmium::Timestamp{o.timestamp})
             .set_changeset(o.changeset).set_uid(o.uid).set_user(o.user);
            add_tags(buf, b, o.tags);
            if (!o.members.empty()) {
                RelationMemberListBuilder mb{buf, &b};
                for (const auto& m : o.members) mb.add_member(osmium::nwr_index_to_item_type(static_cast<unsigned>(m.type - 1)), m.ref, m.role);
            }
            break;
        }
        default: {
            ChangesetBuilder b{buf};
            b.set_id(static_cast<osmium::changeset_id_type>(o.id)).set_uid(o.uid).set_created_at(osmium::Timestamp{o.created_at})
             .set_closed_at(osmium::Timestamp{o.closed_at}).set_num_changes(o.num_changes).set_num_comments(o.num_comments);
            b.set_bounds(osmium::Box{osmium::Location{o.bx1, o.by1}, osmium::Location{o.bx2, o.by2}});
            b.set_user(o.user);
            add_tags(buf, b, o.tags);
            if (!o.comments.empty()) {
                ChangesetDiscussionBuilder db{buf, &b};
                for (const auto& c : o.comments) {
                    db.add_comment(osmium::Timestamp{c.date}, c.uid, c.user.c_str());
                    db.add_comment_text(c.text);
                }
            }
            break;
        }
    }
    buf.commit();
}

// ------------------------------------------------------------------ from item

inline void get_tags(const osmium::TagList& tl, std::vector<Tag>& out) {
    for (const auto& t : tl) out.push_back(Tag{t.key(), t.value()});
}

inline Obj from_entity(const osmium::OSMEntity& e) {
    Obj o;
    if (e.type() == osmium::item_type::changeset) {
        const auto& c = static_cast<const osmium::Changeset&>(e);
        o.type = CHANGESET;
        o.id = c.id();
        o.uid = c.uid();
        o.user = c.user();
        o.created_at = uint32_t(c.created_at());
        o.closed_at = uint32_t(c.closed_at());
        o.num_changes = c.num_changes();
        o.num_comments = c.num_comments();
        o.bx1 = c.bounds().bottom_left().x(); o.by1 = c.bounds().bottom_left().y();
        o.bx2 = c.bounds().top_right().x(); o.by2 = c.bounds().top_right().y();
        get_tags(c.tags(), o.tags);
        for (const auto& cm : c.discussion()) o.comments.push_back(Comment{uint32_t(cm.date()), cm.uid(), cm.user(), cm.text()});
        return o;
    }
    const auto& obj = static_cast<const osmium::OSMObject&>(e);
    o.type = e.type() == osmium::item_type::node ? NODE : e.type() == osmium::item_type::way ? WAY : RELATION;
    o.id = obj.id();
    o.version = obj.version();
    o.visible = obj.visible();
    o.timestamp = uint32_t(obj.timestamp());
    o.changeset = obj.changeset();
    o.uid = obj.uid();
    o.user = obj.user();
    get_tags(obj.tags(), o.tags);
    if (o.type == NODE) {
        const auto& n = static_cast<const osmium::Node&>(obj);
        o.x = n.location().x(); o.y = n.location().y();
    } else if (o.type == WAY) {
        for (const auto& nr : static_cast<const osmium::Way&>(obj).nodes()) o.nodes.push_back(NodeRef{nr.ref(), nr.location().x(), nr.location().y()});
    } else {
        for (const auto& m : static_cast<const osmium::Relation&>(obj).members())
            o.members.push_back(Member{static_cast<int>(osmium::item_type_to_nwr_index(m.type())) + 1, m.ref(), m.role()});
    }
    return o;
}

inline void from_buffer(const osmium::memory::Buffer& buf, std::vector<Obj>& out) {
    for (const auto& item : buf) {
        switch (item.type()) {
            case osmium::item_type::node: case osmium::item_type::way: case osmium::item_type::relation: case osmium::item_type::changeset:
                out.push_back(from_entity(static_cast<const osmium::OSMEntity&>(item)));
                break;
            default: break;
        }
    }
}

// ------------------------------------------------------------------ compare / describe

inline std::string show(const std::string& s) { return s.size() > 40 ? vh::hexdump(s.substr(0, 24)) + "...(" + std::to_string(s.size()) + " bytes)" : "'" + s + "'"; }

// returns "" if equal, else the name of the first differing field (stable) and
// in *detail the two values
inline std::string diff(const Obj& a, const Obj& b, std::string* detail = nullptr) {
    auto d = [&](const char* field, const std::string& va, const std::string& vb) { if (detail) *detail = std::string(field) + ": expected " + va + " got " + vb; return std::string(field); };
#define MDL_CMP(f) if (a.f != b.f) return d(#f, std::to_string(a.f), std::to_string(b.f))
    MDL_CMP(type); MDL_CMP(id); MDL_CMP(version); MDL_CMP(visible); MDL_CMP(timestamp); MDL_CMP(changeset); MDL_CMP(uid);
    if (a.user != b.user) return d("user", show(a.user), show(b.user));
    MDL_CMP(x); MDL_CMP(y);
    if (a.tags.size() != b.tags.size()) return d("tags.size", std::to_string(a.tags.size()), std::to_string(b.tags.size()));
    for (size_t i = 0; i < a.tags.size(); ++i) {
        if (a.tags[i].k != b.tags[i].k) return d("tag.key", show(a.tags[i].k), show(b.tags[i].k));
        if (a.tags[i].v != b.tags[i].v) return d("tag.value", show(a.tags[i].v), show(b.tags[i].v));
    }
    if (a.nodes.size() != b.nodes.size()) return d("nodes.size", std::to_string(a.nodes.size()), std::to_string(b.nodes.size()));
    for (size_t i = 0; i < a.nodes.size(); ++i) {
        if (a.nodes[i].ref != b.nodes[i].ref) return d("node_ref.ref", std::to_string(a.nodes[i].ref), std::to_string(b.nodes[i].ref));
        if (a.nodes[i].x != b.nodes[i].x || a.nodes[i].y != b.nodes[i].y)
            return d("node_ref.location", vh::fmt("(%d,%d)", a.nodes[i].x, a.nodes[i].y), vh::fmt("(%d,%d)", b.nodes[i].x, b.nodes[i].y));
    }
    if (a.members.size() != b.members.size()) return d("members.size", std::to_string(a.members.size()), std::to_string(b.members.size()));
    for (size_t i = 0; i < a.members.size(); ++i) {
        if (a.members[i].type != b.members[i].type) return d("member.type", std::to_string(a.members[i].type), std::to_string(b.members[i].type));
        if (a.members[i].ref != b.members[i].ref) return d("member.ref", std::to_string(a.members[i].ref), std::to_string(b.members[i].ref));
        if (a.members[i].role != b.members[i].role) return d("member.role", show(a.members[i].role), show(b.members[i].role));
    }
    MDL_CMP(created_at); MDL_CMP(closed_at); MDL_CMP(num_changes); MDL_CMP(num_comments);
    MDL_CMP(bx1); MDL_CMP(by1); MDL_CMP(bx2); MDL_CMP(by2);
    if (a.comments.size() != b.comments.size()) return d("comments.size", std::to_string(a.comments.size()), std::to_string(b.comments.size()));
    for (size_t i = 0; i < a.comments.size(); ++i) {
        if (a.comments[i].date != b.comments[i].date) return d("comment.date", std::to_string(a.comments[i].date), std::to_string(b.comments[i].date));
        if (a.comments[i].uid != b.comments[i].uid) return d("comment.uid", std::to_string(a.comments[i].uid), std::to_string(b.comments[i].uid));
        if (a.comments[i].user != b.comments[i].user) return d("comment.user", show(a.comments[i].user), show(b.comments[i].user));
        if (a.comments[i].text != b.comments[i].text) return d("comment.text", show(a.comments[i].text), show(b.comments[i].text));
    }
#undef MDL_CMP
    return "";
}

inline uint64_t hash(const Obj& o, uint64_t h = 0xcbf29ce484222325ULL) {
    h = vh::hash_u64(static_cast<uint64_t>(o.type) * 1315423911ULL + static_cast<uint64_t>(o.id), h);
    h = vh::hash_u64((static_cast<uint64_t>(o.version) << 32) | o.timestamp, h);
    h = vh::hash_u64((static_cast<uint64_t>(o.changeset) << 32) | o.uid, h);
    h = vh::hash_u64((static_cast<uint64_t>(static_cast<uint32_t>(o.x)) << 32) | static_cast<uint32_t>(o.y), h);
    h = vh::hash_str(o.user, h);
    for (const auto& t : o.tags) { h = vh::hash_str(t.k, h); h = vh::hash_str(t.v, h); }
    for (const auto& n : o.nodes) { h = vh::hash_u64(static_cast<uint64_t>(n.ref), h); h = vh::hash_u64((static_cast<uint64_t>(static_cast<uint32_t>(n.x)) << 32) | static_cast<uint32_t>(n.y), h); }
    for (const auto& m : o.members) { h = vh::hash_u64(static_cast<uint64_t>(m.ref) * 4 + static_cast<uint64_t>(m.type), h); h = vh::hash_str(m.role, h); }
    for (const auto& c : o.comments) { h = vh::hash_u64((static_cast<uint64_t>(c.date) << 32) | c.uid, h); h = vh::hash_str(c.user, h); h = vh::hash_str(c.text, h); }
    h = vh::hash_u64((static_cast<uint64_t>(o.created_at) << 32) | o.closed_at, h);
    return vh::hash_u64(o.visible ? 1 : 0, h);
}

inline std::string brief(const Obj& o) {
    return vh::fmt("%c%" PRId64 " v%u %s t%u c%u i%u u%zuB loc(%d,%d) tags%zu nodes%zu members%zu comments%zu", "nwrc"[o.type], o.id, o.version,
                   o.visible ? "V" : "D", o.timestamp, o.changeset, o.uid, o.user.size(), o.x, o.y, o.tags.size(), o.nodes.size(), o.members.size(), o.comments.size());
}

// ------------------------------------------------------------------ generators

enum class Charset { any_utf8, xml_safe };

inline void append_utf8(std::string& s, uint32_t cp) {
    if (cp < 0x80) s += static_cast<char>(cp);
    else if (cp < 0x800) { s += static_cast<char>(0xc0 | (cp >> 6)); s += static_cast<char>(0x80 | (cp & 0x3f)); }
    else if (cp < 0x10000) { s += static_cast<char>(0xe0 | (cp >> 12)); s += static_cast<char>(0x80 | ((cp >> 6) & 0x3f)); s += static_cast<char>(0x80 | (cp & 0x3f)); }
    else { s += static_cast<char>(0xf0 | (cp >> 18)); s += static_cast<char>(0x80 | ((cp >> 12) & 0x3f)); s += static_cast<char>(0x80 | ((cp >> 6) & 0x3f)); s += static_cast<char>(0x80 | (cp & 0x3f)); }
}

inline bool xml_char_ok(uint32_t cp) {
    if (cp < 0x20) return cp == 9 || cp == 10 || cp == 13;
    if (cp >= 0xd800 && cp <= 0xdfff) return false;
    if (cp == 0xfffe || cp == 0xffff) return false;
    return cp <= 0x10ffff;
}

// a random code point from boundary-heavy classes
inline uint32_t gen_codepoint(vh::Rng& rng, Charset cs) {
    static const uint32_t structural[] = {' ', ',', '=', '@', '%', '&', '<', '>', '"', '\'', '\\', '\n', '\r', '\t', ';', '#', ':', '/', '+', '-', '.', '^', '~', 0x7f, '!', '$'};
    static const uint32_t boundaries[] = {0x1, 0x1f, 0x20, 0x7e, 0x7f, 0x80, 0x7ff, 0x800, 0xfff, 0x1000, 0xd7ff, 0xe000, 0xfffd, 0xfffe, 0xffff, 0x10000, 0x10ffff, 0xa0, 0xff, 0x100, 0x20ac, 0x1f600};
    for (int tries = 0; tries < 20; ++tries) {
        uint32_t cp;
        switch (rng.below(6)) {
            case 0: cp = rng.pick(structural); break;
            case 1: cp = rng.pick(boundaries); break;
            case 2: cp = 'a' + static_cast<uint32_t>(rng.below(26)); break;
            case 3: cp = '0' + static_cast<uint32_t>(rng.below(10)); break;
            case 4: cp = 1 + static_cast<uint32_t>(rng.below(0x2ff)); break;
            default: cp = 1 + static_cast<uint32_t>(rng.below(0x10ffff)); break;
        }
        if (cp == 0 || (cp >= 0xd800 && cp <= 0xdfff) || cp > 0x10ffff) continue;
        if (cs == Charset::xml_safe && !xml_char_ok(cp)) continue;
        return cp;
    }
    return 'x';
}

// random valid-UTF-8 string without NUL of at most maxbytes bytes
inline std::string gen_string(vh::Rng& rng, Charset cs, size_t maxbytes = 1024) {
    size_t target;
    switch (rng.below(12)) {
        case 0: target = 0; break;
        case 1: target = 1; break;
        case 2: target = maxbytes; break;
        case 3: target = maxbytes > 0 ? maxbytes - 1 : 0; break;
        case 4: target = rng.below(300); break;
        default: target = rng.below(24); break;
    }
    if (target > maxbytes) target = maxbytes;
    std::string s;
    const bool ascii_only = rng.chance(1, 3);
    while (s.size() < target) {
        std::string one;
        if (ascii_only) one += static_cast<char>('a' + rng.below(26)); else append_utf8(one, gen_codepoint(rng, cs));
        if (s.size() + one.size() > target) {
            if (target - s.size() >= 1) { s += 'z'; continue; }
            break;
        }
        s += one;
    }
    return s;
}

inline int64_t gen_id(vh::Rng& rng) {
    static const int64_t b[] = {1, -1, 2, 0, 2147483647LL, 2147483648LL, -2147483648LL, -2147483649LL, 4294967295LL, 4294967296LL, -4294967296LL,
                                std::numeric_limits<int64_t>::max(), std::numeric_limits<int64_t>::min() + 1, 1000000007LL, 1LL << 40, -(1LL << 40), 1LL << 62, -(1LL << 62)};
    switch (rng.below(5)) {
        case 0: return rng.pick(b);
        case 1: return rng.range(-100, 100);
        case 2: { int64_t v = static_cast<int64_t>(rng.next()); return v == std::numeric_limits<int64_t>::min() ? 1 : v; }
        default: return rng.range(1, 10000000000LL);
    }
}

inline uint32_t gen_u31(vh::Rng& rng) {
    static const uint32_t b[] = {0, 1, 2, 0x7fffffffU, 0x7ffffffeU, 65535, 65536, 255, 256};
    return rng.chance(1, 3) ? rng.pick(b) : static_cast<uint32_t>(rng.below(rng.coin() ? 100 : 0x80000000ULL));
}

inline uint32_t gen_u32(vh::Rng& rng, bool allow_max = true) {
    static const uint32_t b[] = {0, 1, 2, 0x7fffffffU, 0x80000000U, 0xfffffffeU, 0xffffffffU, 1600000000U, 86400};
    for (;;) {
        uint32_t v = rng.chance(1, 3) ? rng.pick(b) : static_cast<uint32_t>(rng.below(rng.coin() ? 2000000000ULL : 0x100000000ULL));
        if (!allow_max && v == 0xffffffffU) continue;
        return v;
    }
}

// any int32 pair, or fully undefined; a single coordinate never equals the undefined sentinel
inline void gen_location(vh::Rng& rng, int32_t& x, int32_t& y, bool valid_only = false) {
    static const int32_t b[] = {0, 1, -1, 1800000000, -1800000000, 900000000, -900000000, 1799999999, 899999999, 10, 123456789};
    static const int32_t wild[] = {std::numeric_limits<int32_t>::min(), 2147483646, 1800000001, -1800000001, 900000001, -900000001, 2000000000, -2000000000};
    if (!valid_only && rng.chance(1, 8)) { x = UNDEF; y = UNDEF; return; }
    auto coord = [&](bool lat) -> int32_t {
        const int32_t lim = lat ? 900000000 : 1800000000;
        switch (rng.below(4)) {
            case 0: { int32_t v = rng.pick(b); if (v > lim) v = lim; if (v < -lim) v = -lim; return v; }
            case 1: if (!valid_only) return rng.pick(wild); /* fallthrough */
            default: return static_cast<int32_t>(rng.range(-lim, lim));
        }
    };
    x = coord(false);
    y = coord(true);
}

struct GenOpts {
    Charset charset = Charset::any_utf8;
    bool valid_locations_only = false;   // e.g. when the text formats must print them
    bool allow_changesets = false;
    bool allow_discussions = false;
    size_t max_string = 1024;
    unsigned max_tags = 8;
    unsigned max_nodes = 12;
    unsigned max_members = 8;
    bool history = false;                // versions / invisible objects make sense
    bool changeset_u32_max = true;       // allow 2^32-1 for changeset ids
};

inline std::vector<Tag> gen_tags(vh::Rng& rng, const GenOpts& go) {
    std::vector<Tag> tags;
    unsigned n = rng.chance(1, 3) ? 0 : static_cast<unsigned>(rng.below(go.max_tags + 1));
    for (unsigned i = 0; i < n; ++i) tags.push_back(Tag{gen_string(rng, go.charset, go.max_string), gen_string(rng, go.charset, go.max_string)});
    return tags;
}

inline Obj gen_object(vh::Rng& rng, const GenOpts& go, int type) {
    Obj o;
    o.type = type;
    o.id = gen_id(rng);
    o.version = gen_u31(rng);
    o.visible = go.history ? !rng.chance(1, 4) : true;
    o.timestamp = gen_u32(rng);
    o.changeset = gen_u32(rng, go.changeset_u32_max);
    o.uid = gen_u31(rng);
    o.user = rng.chance(1, 5) ? std::string() : gen_string(rng, go.charset, go.max_string);
    o.tags = gen_tags(rng, go);
    if (type == NODE) {
        if (o.visible) gen_location(rng, o.x, o.y, go.valid_locations_only);
        // invisible nodes have no location (a deleted object has none)
    } else if (type == WAY) {
        unsigned n = rng.chance(1, 6) ? 0 : static_cast<unsigned>(rng.below(go.max_nodes + 1));
        for (unsigned i = 0; i < n; ++i) {
            NodeRef nr;
            nr.ref = gen_id(rng);
            gen_location(rng, nr.x, nr.y, go.valid_locations_only);
            o.nodes.push_back(nr);
        }
    } else {
        unsigned n = rng.chance(1, 6) ? 0 : static_cast<unsigned>(rng.below(go.max_members + 1));
        for (unsigned i = 0; i < n; ++i) o.members.push_back(Member{1 + static_cast<int>(rng.below(3)), gen_id(rng), gen_string(rng, go.charset, go.max_string)});
    }
    return o;
}

inline Obj gen_changeset(vh::Rng& rng, const GenOpts& go) {
    Obj o;
    o.type = CHANGESET;
    o.id = gen_u32(rng, go.changeset_u32_max);
    o.created_at = gen_u32(rng);
    o.closed_at = rng.chance(1, 4) ? 0 : gen_u32(rng);
    o.num_changes = gen_u32(rng, false);
    o.uid = rng.chance(1, 4) ? 0 : gen_u31(rng);
    if (o.uid != 0) o.user = gen_string(rng, go.charset, go.max_string);   // anonymous changesets have no user name
    if (rng.coin()) { gen_location(rng, o.bx1, o.by1, true); gen_location(rng, o.bx2, o.by2, true); }
    o.tags = gen_tags(rng, go);
    if (go.allow_discussions && rng.coin()) {
        unsigned n = 1 + static_cast<unsigned>(rng.below(4));
        for (unsigned i = 0; i < n; ++i) o.comments.push_back(Comment{gen_u32(rng), gen_u31(rng), gen_string(rng, go.charset, go.max_string), gen_string(rng, go.charset, go.max_string)});
    }
    o.num_comments = go.allow_discussions ? static_cast<uint32_t>(o.comments.size()) : gen_u32(rng, false);
    return o;
}

// a random data set: nodes, then ways, then relations (then changesets); ids
// need not be sorted or unique - the formats do not require it
inline std::vector<Obj> gen_dataset(vh::Rng& rng, const GenOpts& go, size_t n) {
    std::vector<Obj> d;
    size_t nn = rng.below(n + 1), nw = rng.below(n - nn + 1), nr = n - nn - nw;
    size_t nc = 0;
    if (go.allow_changesets && rng.coin()) { nc = nr / 2; nr -= nc; }
    for (size_t i = 0; i < nn; ++i) d.push_back(gen_object(rng, go, NODE));
    for (size_t i = 0; i < nw; ++i) d.push_back(gen_object(rng, go, WAY));
    for (size_t i = 0; i < nr; ++i) d.push_back(gen_object(rng, go, RELATION));
    for (size_t i = 0; i < nc; ++i) d.push_back(gen_changeset(rng, go));
    return d;
}

inline Header gen_header(vh::Rng& rng, Charset cs) {
    Header h;
    h.generator = rng.chance(1, 4) ? std::string("verif") : gen_string(rng, cs, 200);
    if (h.generator.empty()) h.generator = "g";   // an empty generator is replaced by the library's own name (documented)
    unsigned nb = rng.chance(1, 2) ? 0 : 1 + static_cast<unsigned>(rng.below(3));
    for (unsigned i = 0; i < nb; ++i) {
        Box b;
        gen_location(rng, b.x1, b.y1, true);
        gen_location(rng, b.x2, b.y2, true);
        if (b.x2 < b.x1) std::swap(b.x1, b.x2);
        if (b.y2 < b.y1) std::swap(b.y1, b.y2);
        h.boxes.push_back(b);
    }
    return h;
}

} // namespace mdl

#endif // VH_MODEL_HPP
