// pb.hpp - minimal protobuf wire-format writer/reader written from the protobuf
// encoding specification (independent of protozero), plus zlib/lz4 helpers
// and an independent PBF *framing* parser (OSM PBF file-format limits).

#ifndef VH_PB_HPP
#define VH_PB_HPP

#include <cstdint>
#include <cstring>
#include <stdexcept>
#include <string>
#include <vector>

#include <lz4.h>
#include <zlib.h>

namespace pb {

// ------------------------------------------------------------------ writer

inline void put_varint(std::string& out, uint64_t v) {
    while (v >= 0x80) { out += static_cast<char>((v & 0x7f) | 0x80); v >>= 7; }
    out += static_cast<char>(v);
}
inline uint64_t zigzag(int64_t v) { return (static_cast<uint64_t>(v) << 1) ^ static_cast<uint64_t>(v >> 63); }
inline int64_t unzigzag(uint64_t v) { return static_cast<int64_t>(v >> 1) ^ -static_cast<int64_t>(v & 1); }

inline void put_tag(std::string& out, uint32_t field, uint32_t wire) { put_varint(out, (static_cast<uint64_t>(field) << 3) | wire); }
inline void put_varint_field(std::string& out, uint32_t field, uint64_t v) { put_tag(out, field, 0); put_varint(out, v); }
inline void put_sint_field(std::string& out, uint32_t field, int64_t v) { put_varint_field(out, field, zigzag(v)); }
inline void put_int_field(std::string& out, uint32_t field, int64_t v) { put_varint_field(out, field, static_cast<uint64_t>(v)); }
inline void put_bytes_field(std::string& out, uint32_t field, const std::string& b) { put_tag(out, field, 2); put_varint(out, b.size()); out += b; }
inline void put_fixed32_field(std::string& out, uint32_t field, uint32_t v) { put_tag(out, field, 5); out.append(reinterpret_cast<const char*>(&v), 4); }
inline void put_fixed64_field(std::string& out, uint32_t field, uint64_t v) { put_tag(out, field, 1); out.append(reinterpret_cast<const char*>(&v), 8); }

// ------------------------------------------------------------------ reader

struct parse_error : public std::runtime_error { using std::runtime_error::runtime_error; };

class Reader {
    const unsigned char* p;
    const unsigned char* e;
public:
    uint32_t field = 0, wire = 0;
    uint64_t value = 0;          // varint / fixed
    const char* data = nullptr;  // length-delimited
    size_t size = 0;
    Reader(const char* d, size_t n) : p(reinterpret_cast<const unsigned char*>(d)), e(p + n) {}
    explicit Reader(const std::string& s) : Reader(s.data(), s.size()) {}
    uint64_t varint() {
        uint64_t v = 0; int shift = 0;
        while (true) {
            if (p == e) throw parse_error{"varint past end"};
            if (shift > 63) throw parse_error{"varint too long"};
            const unsigned char c = *p++;
            v |= static_cast<uint64_t>(c & 0x7f) << shift;
            if (!(c & 0x80)) return v;
            shift += 7;
        }
    }
    bool done() const { return p == e; }
    bool next() {
        if (p == e) return false;
        const uint64_t t = varint();
        field = static_cast<uint32_t>(t >> 3); wire = static_cast<uint32_t>(t & 7);
        switch (wire) {
            case 0: value = varint(); break;
            case 1: if (e - p < 8) throw parse_error{"fixed64 past end"}; std::memcpy(&value, p, 8); p += 8; break;
            case 2: { const uint64_t n = varint(); if (static_cast<uint64_t>(e - p) < n) throw parse_error{"bytes past end"}; data = reinterpret_cast<const char*>(p); size = n; p += n; break; }
            case 5: { if (e - p < 4) throw parse_error{"fixed32 past end"}; uint32_t v; std::memcpy(&v, p, 4); value = v; p += 4; break; }
            default: throw parse_error{"unsupported wire type"};
        }
        return true;
    }
    std::string bytes() const { return std::string(data, size); }
};

// ------------------------------------------------------------------ compression helpers

inline std::string zlib_deflate(const std::string& in, int level = 6) {
    uLongf n = compressBound(in.size());
    std::string out(n, '\0');
    if (compress2(reinterpret_cast<Bytef*>(&out[0]), &n, reinterpret_cast<const Bytef*>(in.data()), in.size(), level) != Z_OK) throw std::runtime_error{"compress2 failed"};
    out.resize(n);
    return out;
}
// returns false if the data does not inflate to exactly raw_size bytes
inline bool zlib_inflate(const char* d, size_t n, size_t raw_size, std::string& out) {
    out.assign(raw_size ? raw_size : 1, '\0');
    uLongf len = out.size();
    const int r = uncompress(reinterpret_cast<Bytef*>(&out[0]), &len, reinterpret_cast<const Bytef*>(d), n);
    if (r != Z_OK || len != raw_size) return false;
    out.resize(raw_size);
    return true;
}
inline std::string lz4_deflate(const std::string& in) {
    std::string out(static_cast<size_t>(LZ4_compressBound(static_cast<int>(in.size()))), '\0');
    const int n = LZ4_compress_default(in.data(), &out[0], static_cast<int>(in.size()), static_cast<int>(out.size()));
    if (n <= 0 && !in.empty()) throw std::runtime_error{"lz4 failed"};
    out.resize(static_cast<size_t>(n));
    return out;
}
inline bool lz4_inflate(const char* d, size_t n, size_t raw_size, std::string& out) {
    out.assign(raw_size ? raw_size : 1, '\0');
    const int r = LZ4_decompress_safe(d, &out[0], static_cast<int>(n), static_cast<int>(raw_size));
    if (r < 0 || static_cast<size_t>(r) != raw_size) return false;
    out.resize(raw_size);
    return true;
}

// ------------------------------------------------------------------ framing parser

constexpr size_t max_blob_header_size = 64UL * 1024UL;
constexpr size_t max_blob_size = 32UL * 1024UL * 1024UL;

struct FrameStats {
    size_t blobs = 0, data_blobs = 0;
    size_t max_header_len = 0, max_datasize = 0, max_raw = 0, max_entities = 0, max_strings = 0;
    std::string error;      // empty = within the format limits
    std::string error_class; // stable short class for keys
};

// counts entities of one PrimitiveBlock (uncompressed)
inline size_t count_entities(const std::string& block, size_t* nstrings) {
    size_t n = 0;
    Reader r{block};
    while (r.next()) {
        if (r.field == 1 && r.wire == 2) {  // stringtable
            Reader st{r.data, r.size};
            size_t k = 0;
            while (st.next()) if (st.field == 1) ++k;
            if (nstrings) *nstrings = k;
        } else if (r.field == 2 && r.wire == 2) {  // primitivegroup
            Reader g{r.data, r.size};
            while (g.next()) {
                if (g.wire != 2) continue;
                if (g.field == 1 || g.field == 3 || g.field == 4 || g.field == 5) ++n;
                else if (g.field == 2) {  // dense: count ids
                    Reader d{g.data, g.size};
                    while (d.next()) if (d.field == 1 && d.wire == 2) { Reader ids{d.data, d.size}; while (!ids.done()) { ids.varint(); ++n; } }
                }
            }
        }
    }
    return n;
}

inline FrameStats check_framing(const std::string& file) {
    FrameStats fs;
    size_t off = 0;
    auto fail = [&](const char* cls, const std::string& msg) { fs.error_class = cls; fs.error = msg + " at offset " + std::to_string(off); return fs; };
    try {
        while (off < file.size()) {
            if (file.size() - off < 4) return fail("truncated length", "truncated BlobHeader length");
            const auto* u = reinterpret_cast<const unsigned char*>(file.data() + off);
            const size_t hl = (static_cast<size_t>(u[0]) << 24) | (static_cast<size_t>(u[1]) << 16) | (static_cast<size_t>(u[2]) << 8) | u[3];
            if (hl > max_blob_header_size) return fail("BlobHeader > 64 KiB", "BlobHeader length " + std::to_string(hl));
            if (file.size() - off - 4 < hl) return fail("truncated BlobHeader", "truncated BlobHeader");
            if (hl > fs.max_header_len) fs.max_header_len = hl;
            Reader h{file.data() + off + 4, hl};
            std::string type; int64_t datasize = -1;
            while (h.next()) {
                if (h.field == 1 && h.wire == 2) type = h.bytes();
                else if (h.field == 3 && h.wire == 0) datasize = static_cast<int64_t>(h.value);
            }
            if (datasize < 0) return fail("BlobHeader without datasize", "no datasize");
            if (static_cast<size_t>(datasize) > max_blob_size) return fail("blob > 32 MiB", "datasize " + std::to_string(datasize));
            if (fs.blobs == 0 && type != "OSMHeader") return fail("first blob is not OSMHeader", "type " + type);
            if (fs.blobs > 0 && type != "OSMData") return fail("unexpected blob type", "type " + type);
            off += 4 + hl;
            if (file.size() - off < static_cast<size_t>(datasize)) return fail("truncated blob", "truncated blob");
            if (static_cast<size_t>(datasize) > fs.max_datasize) fs.max_datasize = static_cast<size_t>(datasize);
            Reader b{file.data() + off, static_cast<size_t>(datasize)};
            std::string raw; bool have = false; int64_t raw_size = -1; const char* z = nullptr; size_t zn = 0; int kind = 0;
            while (b.next()) {
                if (b.field == 1 && b.wire == 2) { raw = b.bytes(); have = true; }
                else if (b.field == 2 && b.wire == 0) raw_size = static_cast<int64_t>(b.value);
                else if (b.field == 3 && b.wire == 2) { z = b.data; zn = b.size; kind = 3; }
                else if (b.field == 6 && b.wire == 2) { z = b.data; zn = b.size; kind = 6; }
            }
            if (!have) {
                if (!z || raw_size < 0) return fail("blob without data", "no raw/zlib/lz4 data or raw_size");
                if (static_cast<size_t>(raw_size) > max_blob_size) return fail("uncompressed block > 32 MiB", "raw_size " + std::to_string(raw_size));
                const bool ok = kind == 3 ? zlib_inflate(z, zn, static_cast<size_t>(raw_size), raw) : lz4_inflate(z, zn, static_cast<size_t>(raw_size), raw);
                if (!ok) return fail("compressed data does not match raw_size", "inflate mismatch");
            } else if (raw.size() > max_blob_size) {
                return fail("uncompressed block > 32 MiB", "raw " + std::to_string(raw.size()));
            }
            if (raw.size() > fs.max_raw) fs.max_raw = raw.size();
            if (fs.blobs > 0) {
                size_t ns = 0;
                const size_t n = count_entities(raw, &ns);
                if (n > fs.max_entities) fs.max_entities = n;
                if (ns > fs.max_strings) fs.max_strings = ns;
                ++fs.data_blobs;
            }
            ++fs.blobs;
            off += static_cast<size_t>(datasize);
        }
    } catch (const parse_error& e) {
        return fail("malformed protobuf", e.what());
    }
    if (fs.blobs == 0) { fs.error_class = "empty file"; fs.error = "no blobs"; }
    return fs;
}

} // namespace pb

#endif // VH_PB_HPP
