// vh_hooks.hpp - harness-side definitions of the OSMIUM_VERIF hooks.
//
// sched_point: seeded per-thread perturbation (nothing / yield / short sleep)
// plus a per-site hit counter and a cheap interleaving signature: every call
// appends (site, small thread number) to a global order hash, so that two
// runs with a different global order of synchronisation events get different
// signatures. queue_size_event: tracks max depth per queue and checks the
// bound under the queue's own lock. gc_event: counts garbage collections.

#ifndef VH_HOOKS_HPP
#define VH_HOOKS_HPP

#include <osmium/verif_hooks.hpp>

#include <atomic>
#include <chrono>
#include <cstdint>
#include <thread>

namespace vhk {

struct HookState {
    std::atomic<uint64_t> perturb_seed{0};       // 0 = no perturbation
    std::atomic<uint32_t> perturb_permille{0};   // probability of doing something at a point
    std::atomic<uint32_t> max_sleep_us{100};
    std::atomic<uint64_t> site_hits[16];
    std::atomic<uint64_t> order_hash{0};
    std::atomic<uint64_t> events{0};
    std::atomic<uint64_t> yields{0};
    std::atomic<uint64_t> sleeps{0};
    std::atomic<uint64_t> gc_events{0};
    std::atomic<uint64_t> max_queue_depth{0};
    std::atomic<uint64_t> bound_excess_max{0};   // max(size - max_size) seen on push, when bounded
    std::atomic<uint64_t> pushes{0};
    std::atomic<uint64_t> pops{0};
    std::atomic<uint32_t> next_thread_no{0};
};

inline HookState& hs() { static HookState s; return s; }

inline uint32_t thread_no() {
    static thread_local uint32_t n = hs().next_thread_no.fetch_add(1) + 1;
    return n;
}

inline uint64_t& thread_rng() {
    static thread_local uint64_t x = 0;
    return x;
}

inline void reset(uint64_t seed, uint32_t permille, uint32_t max_sleep_us = 100) {
    HookState& h = hs();
    h.perturb_seed = seed;
    h.perturb_permille = permille;
    h.max_sleep_us = max_sleep_us;
    h.order_hash = 0;
    h.events = 0;
}

inline uint64_t signature() { return hs().order_hash.load(); }

} // namespace vhk

namespace osmium { namespace verif {

inline uint64_t vh_splitmix(uint64_t& x) {
    uint64_t z = (x += 0x9e3779b97f4a7c15ULL);
    z = (z ^ (z >> 30)) * 0xbf58476d1ce4e5b9ULL;
    z = (z ^ (z >> 27)) * 0x94d049bb133111ebULL;
    return z ^ (z >> 31);
}

void sched_point(site s, const void* /*object*/) noexcept {
    vhk::HookState& h = vhk::hs();
    const int si = static_cast<int>(s) & 15;
    h.site_hits[si].fetch_add(1, std::memory_order_relaxed);
    const uint32_t tn = vhk::thread_no();
    // order-sensitive signature: h = h*P + token (atomic RMW loop)
    const uint64_t token = (static_cast<uint64_t>(tn) << 8) | static_cast<uint64_t>(si);
    uint64_t old = h.order_hash.load(std::memory_order_relaxed);
    while (!h.order_hash.compare_exchange_weak(old, old * 0x100000001b3ULL + token + 1, std::memory_order_relaxed)) {}
    h.events.fetch_add(1, std::memory_order_relaxed);
    const uint64_t seed = h.perturb_seed.load(std::memory_order_relaxed);
    if (seed == 0) return;
    uint64_t& x = vhk::thread_rng();
    if (x == 0) x = seed * 0x9e3779b97f4a7c15ULL + tn;
    const uint64_t r = vh_splitmix(x);
    if ((r % 1000) >= h.perturb_permille.load(std::memory_order_relaxed)) return;
    const uint64_t what = (r >> 20) % 4;
    if (what < 2) {
        h.yields.fetch_add(1, std::memory_order_relaxed);
        std::this_thread::yield();
    } else {
        h.sleeps.fetch_add(1, std::memory_order_relaxed);
        const uint64_t us = 1 + ((r >> 32) % h.max_sleep_us.load(std::memory_order_relaxed));
        std::this_thread::sleep_for(std::chrono::microseconds(us));
    }
}

void queue_size_event(const void* /*queue*/, std::size_t size, std::size_t max_size, bool is_push) noexcept {
    vhk::HookState& h = vhk::hs();
    if (is_push) {
        h.pushes.fetch_add(1, std::memory_order_relaxed);
        uint64_t m = h.max_queue_depth.load(std::memory_order_relaxed);
        while (size > m && !h.max_queue_depth.compare_exchange_weak(m, size, std::memory_order_relaxed)) {}
        if (max_size && size > max_size) {
            const uint64_t ex = size - max_size;
            uint64_t b = h.bound_excess_max.load(std::memory_order_relaxed);
            while (ex > b && !h.bound_excess_max.compare_exchange_weak(b, ex, std::memory_order_relaxed)) {}
        }
    } else {
        h.pops.fetch_add(1, std::memory_order_relaxed);
    }
}

void gc_event(const void* /*stash*/) noexcept {
    vhk::hs().gc_events.fetch_add(1, std::memory_order_relaxed);
}

}} // namespace osmium::verif

#endif // VH_HOOKS_HPP
