// vh.hpp - common harness runtime for all /verif checks.
//
// A harness is a program that runs numbered *cases*. Case i is fully
// determined by (seed, i): it gets its own PRNG stream. The python driver
// shards [from, to) over processes, restarts after a crash behind the crashed
// case and merges the JSONL result files.
//
// Output protocol (file given by --out, one JSON object per line):
//   {"t":"v","case":i,"key":"...","detail":"..."}       a violation
//   {"t":"crash","case":i,"desc":"...","why":"..."}     written by crash hooks
//   {"t":"stats","evaluations":n,"counters":{..},"samples":[..],"info":[..]}
// plus a binary sidecar <out>.hashes with the 64-bit hashes of all distinct
// non-trivial cases (merged by the driver to count distinct_nontrivial).

#ifndef VH_HPP
#define VH_HPP

#include <atomic>
#include <cinttypes>
#include <csignal>
#include <cstdarg>
#include <cstdint>
#include <cstdio>
#include <cstdlib>
#include <cstring>
#include <exception>
#include <fcntl.h>
#include <functional>
#include <map>
#include <mutex>
#include <set>
#include <string>
#include <sys/mman.h>
#include <sys/stat.h>
#include <unistd.h>
#include <unordered_set>
#include <vector>

namespace vh {

// ---------------------------------------------------------------- PRNG

inline uint64_t splitmix64(uint64_t& x) {
    uint64_t z = (x += 0x9e3779b97f4a7c15ULL);
    z = (z ^ (z >> 30)) * 0xbf58476d1ce4e5b9ULL;
    z = (z ^ (z >> 27)) * 0x94d049bb133111ebULL;
    return z ^ (z >> 31);
}

inline uint64_t mix(uint64_t a, uint64_t b) {
    uint64_t x = a * 0x9e3779b97f4a7c15ULL + b + 0x632be59bd9b4e019ULL;
    return splitmix64(x);
}

class Rng {
    uint64_t s[4];
    static uint64_t rotl(uint64_t x, int k) { return (x << k) | (x >> (64 - k)); }
public:
    explicit Rng(uint64_t seed = 0, uint64_t stream = 0) {
        uint64_t x = mix(seed, stream);
        for (auto& v : s) v = splitmix64(x);
    }
    uint64_t next() {
        const uint64_t r = rotl(s[1] * 5, 7) * 9;
        const uint64_t t = s[1] << 17;
        s[2] ^= s[0]; s[3] ^= s[1]; s[1] ^= s[2]; s[0] ^= s[3];
        s[2] ^= t; s[3] = rotl(s[3], 45);
        return r;
    }
    // uniform in [0, n)  (n > 0)
    uint64_t below(uint64_t n) { return n ? next() % n : 0; }
    // uniform in [a, b] inclusive
    int64_t range(int64_t a, int64_t b) {
        return a + static_cast<int64_t>(below(static_cast<uint64_t>(b - a) + 1));
    }
    bool chance(unsigned num, unsigned den) { return below(den) < num; }
    bool coin() { return next() & 1U; }
    template <typename T> const T& pick(const std::vector<T>& v) { return v[below(v.size())]; }
    template <typename T, size_t N> const T& pick(const T (&v)[N]) { return v[below(N)]; }
    template <typename T> void shuffle(std::vector<T>& v) {
        for (size_t i = v.size(); i > 1; --i) std::swap(v[i - 1], v[below(i)]);
    }
};

// ---------------------------------------------------------------- hashing

inline uint64_t fnv1a(const void* data, size_t n, uint64_t h = 0xcbf29ce484222325ULL) {
    const auto* p = static_cast<const unsigned char*>(data);
    for (size_t i = 0; i < n; ++i) { h ^= p[i]; h *= 0x100000001b3ULL; }
    return h;
}
inline uint64_t hash_str(const std::string& s, uint64_t h = 0xcbf29ce484222325ULL) { return fnv1a(s.data(), s.size(), h); }
inline uint64_t hash_u64(uint64_t v, uint64_t h = 0xcbf29ce484222325ULL) { return fnv1a(&v, sizeof(v), h); }

// ---------------------------------------------------------------- JSON helpers

inline std::string jesc(const std::string& s, size_t maxlen = 4000) {
    std::string o;
    o.reserve(s.size() + 8);
    size_t n = 0;
    for (unsigned char c : s) {
        if (++n > maxlen) { o += "...(truncated)"; break; }
        switch (c) {
            case '"': o += "\\\""; break;
            case '\\': o += "\\\\"; break;
            case '\n': o += "\\n"; break;
            case '\r': o += "\\r"; break;
            case '\t': o += "\\t"; break;
            default:
                if (c < 0x20 || c >= 0x7f) { char b[8]; std::snprintf(b, sizeof(b), "\\u%04x", c); o += b; }
                else o += static_cast<char>(c);
        }
    }
    return o;
}

inline std::string hexdump(const std::string& s, size_t maxlen = 256) {
    static const char* d = "0123456789abcdef";
    std::string o;
    for (size_t i = 0; i < s.size() && i < maxlen; ++i) { o += d[(unsigned char)s[i] >> 4]; o += d[(unsigned char)s[i] & 15]; }
    if (s.size() > maxlen) o += "...";
    return o;
}

inline std::string fmt(const char* f, ...) __attribute__((format(printf, 1, 2)));
inline std::string fmt(const char* f, ...) {
    va_list ap; va_start(ap, f);
    char buf[2048];
    int n = std::vsnprintf(buf, sizeof(buf), f, ap);
    va_end(ap);
    if (n < 0) return "";
    if (static_cast<size_t>(n) < sizeof(buf)) return std::string(buf, n);
    std::string big(n + 1, '\0');
    va_start(ap, f); std::vsnprintf(&big[0], big.size(), f, ap); va_end(ap);
    big.resize(n);
    return big;
}

// ---------------------------------------------------------------- global state

struct State {
    std::mutex mtx;
    int out_fd = 1;
    std::string out_path;
    uint64_t seed = 0;
    std::string tier = "quick";
    std::atomic<uint64_t> evaluations{0};
    std::atomic<uint64_t> violations{0};
    std::map<std::string, uint64_t> counters;
    std::map<std::string, std::set<std::string>> sets;   // small categorical coverage sets
    std::unordered_set<uint64_t> distinct;
    std::vector<std::string> samples;  // JSON fragments
    std::vector<std::string> info;     // JSON fragments (strings)
    size_t max_samples = 6;
    size_t max_distinct = 4000000;
    uint64_t distinct_overflow = 0;
    std::map<std::string, std::string> args;
    volatile uint64_t* progress = nullptr;   // mmap'ed: [0]=current case, [1]=heartbeat
    char case_desc[1024] = {0};
    std::atomic<uint64_t> current_case{0};
    uint64_t violations_per_key_limit = 5;
    uint64_t range_to = 0;
    std::map<std::string, uint64_t> per_key;
};

inline State& st() { static State s; return s; }

inline void raw_line(const std::string& line) {
    State& s = st();
    std::string l = line; l += '\n';
    size_t off = 0;
    while (off < l.size()) {
        ssize_t n = ::write(s.out_fd, l.data() + off, l.size() - off);
        if (n <= 0) break;
        off += static_cast<size_t>(n);
    }
}

inline void violation(const std::string& key, const std::string& detail) {
    State& s = st();
    std::lock_guard<std::mutex> g{s.mtx};
    ++s.violations;
    uint64_t& k = s.per_key[key];
    ++k;
    if (k > s.violations_per_key_limit) return;   // counted, not repeated
    raw_line(fmt("{\"t\":\"v\",\"case\":%" PRIu64 ",\"key\":\"%s\",\"detail\":\"%s\",\"desc\":\"%s\"}",
                 s.current_case.load(), jesc(key).c_str(), jesc(detail).c_str(), jesc(s.case_desc).c_str()));
}

// A harness calls hang_detected() after it reported a hang (bounded-progress
// watchdog fired). After three hangs in one process the remaining cases of the
// shard are skipped (counted in 'cases_skipped_after_hangs'), so that a tree on
// which every case hangs does not cost watchdog-time x cases.
inline std::atomic<int>& hang_counter() { static std::atomic<int> c{0}; return c; }
inline void hang_detected() { ++hang_counter(); }

inline void count(const std::string& name, uint64_t n = 1) {
    State& s = st();
    std::lock_guard<std::mutex> g{s.mtx};
    s.counters[name] += n;
}
inline void count_max(const std::string& name, uint64_t v) {
    State& s = st();
    std::lock_guard<std::mutex> g{s.mtx};
    uint64_t& c = s.counters[name];
    if (v > c) c = v;
}
inline void cover(const std::string& dim, const std::string& value) {
    State& s = st();
    std::lock_guard<std::mutex> g{s.mtx};
    auto& set = s.sets[dim];
    if (set.size() < 400) set.insert(value);
}
// mark one evaluated case; h = hash of its canonical form when non-trivial
inline void evaluated(uint64_t n = 1) { st().evaluations += n; }
inline void distinct(uint64_t h) {
    State& s = st();
    std::lock_guard<std::mutex> g{s.mtx};
    if (s.distinct.size() < s.max_distinct) s.distinct.insert(h); else ++s.distinct_overflow;
}
inline void sample(const std::string& json_fragment) {
    State& s = st();
    std::lock_guard<std::mutex> g{s.mtx};
    if (s.samples.size() < s.max_samples) s.samples.push_back(json_fragment);
}
inline void sample_str(const std::string& str) { sample("\"" + jesc(str, 600) + "\""); }
inline void info(const std::string& str) {
    State& s = st();
    std::lock_guard<std::mutex> g{s.mtx};
    if (s.info.size() < 40) s.info.push_back("\"" + jesc(str) + "\"");
}

inline void set_case_desc(const char* f, ...) __attribute__((format(printf, 1, 2)));
inline void set_case_desc(const char* f, ...) {
    va_list ap; va_start(ap, f);
    std::vsnprintf(st().case_desc, sizeof(st().case_desc), f, ap);
    va_end(ap);
}

inline std::string arg(const std::string& name, const std::string& dflt = "") {
    auto it = st().args.find(name);
    return it == st().args.end() ? dflt : it->second;
}
inline int64_t arg_int(const std::string& name, int64_t dflt) {
    auto it = st().args.find(name);
    return it == st().args.end() ? dflt : std::strtoll(it->second.c_str(), nullptr, 0);
}
inline bool thorough() { return st().tier == "thorough"; }

inline void dump_stats(bool from_crash) {
    State& s = st();
    std::string o = fmt("{\"t\":\"stats\",\"evaluations\":%" PRIu64 ",\"violations\":%" PRIu64 ",\"distinct_local\":%zu,\"distinct_overflow\":%" PRIu64 ",\"crashed\":%s,\"counters\":{",
                        s.evaluations.load(), s.violations.load(), s.distinct.size(), s.distinct_overflow, from_crash ? "true" : "false");
    bool first = true;
    for (auto& kv : s.counters) { if (!first) o += ","; first = false; o += "\"" + jesc(kv.first) + "\":" + std::to_string(kv.second); }
    o += "},\"sets\":{";
    first = true;
    for (auto& kv : s.sets) {
        if (!first) o += ","; first = false;
        o += "\"" + jesc(kv.first) + "\":[";
        bool f2 = true;
        for (auto& v : kv.second) { if (!f2) o += ","; f2 = false; o += "\"" + jesc(v) + "\""; }
        o += "]";
    }
    o += "},\"samples\":[";
    first = true;
    for (auto& v : s.samples) { if (!first) o += ","; first = false; o += v; }
    o += "],\"info\":[";
    first = true;
    for (auto& v : s.info) { if (!first) o += ","; first = false; o += v; }
    o += "]}";
    raw_line(o);
    if (!s.out_path.empty()) {
        std::string hp = s.out_path + ".hashes";
        int fd = ::open(hp.c_str(), O_WRONLY | O_CREAT | O_APPEND, 0644);
        if (fd >= 0) {
            std::vector<uint64_t> v(s.distinct.begin(), s.distinct.end());
            size_t bytes = v.size() * sizeof(uint64_t), off = 0;
            while (off < bytes) {
                ssize_t n = ::write(fd, reinterpret_cast<const char*>(v.data()) + off, bytes - off);
                if (n <= 0) break;
                off += static_cast<size_t>(n);
            }
            ::close(fd);
        }
    }
}

// After a hang was reported the process still contains stuck threads that may
// reference the case's stack: the only safe continuation is to stop this
// process. The remaining cases of the shard are counted as skipped.
inline void abort_shard_after_hang(uint64_t remaining_hint = 0) {
    State& s = st();
    {
        std::lock_guard<std::mutex> g{s.mtx};
        s.counters["shards_stopped_after_hang"] += 1;
        s.counters["cases_skipped_after_hangs"] += remaining_hint;
    }
    dump_stats(false);
    ::_exit(0);
}

// ---------------------------------------------------------------- crash attribution

inline void crash_record(const char* why) {
    static std::atomic<int> once{0};
    if (once.exchange(1)) return;
    State& s = st();
    char buf[1800];
    std::string d = jesc(s.case_desc, 900);
    int n = std::snprintf(buf, sizeof(buf), "{\"t\":\"crash\",\"case\":%" PRIu64 ",\"why\":\"%s\",\"desc\":\"%s\"}\n",
                          s.current_case.load(), why, d.c_str());
    if (n > 0) { ssize_t r = ::write(s.out_fd, buf, static_cast<size_t>(n)); (void)r; }
    // best effort: keep the statistics gathered so far (we are dying anyway)
    if (s.mtx.try_lock()) { s.mtx.unlock(); dump_stats(true); }
}

inline void signal_handler(int sig) {
    const char* name = sig == SIGSEGV ? "SIGSEGV" : sig == SIGABRT ? "SIGABRT" : sig == SIGBUS ? "SIGBUS" :
                       sig == SIGFPE ? "SIGFPE" : sig == SIGILL ? "SIGILL" : "signal";
    crash_record(name);
    std::signal(sig, SIG_DFL);
    std::raise(sig);
}

inline void install_crash_handlers() {
    // ASan installs its own SEGV handler and calls __asan_on_error (below);
    // SIGABRT (assert, abort_on_error) comes to us.
    for (int sig : {SIGABRT, SIGFPE, SIGILL}) std::signal(sig, signal_handler);
#if !defined(__SANITIZE_ADDRESS__) && !defined(__SANITIZE_THREAD__)
    std::signal(SIGSEGV, signal_handler);
    std::signal(SIGBUS, signal_handler);
#endif
}

// ---------------------------------------------------------------- runner

using case_fn = std::function<void(uint64_t index, Rng& rng)>;

inline void parse_args(int argc, char** argv) {
    State& s = st();
    static bool done = false;
    if (done) return;
    done = true;
    for (int i = 1; i < argc; ++i) {
        std::string a = argv[i];
        if (a.rfind("--", 0) == 0) {
            std::string k = a.substr(2), v = "1";
            auto eq = k.find('=');
            if (eq != std::string::npos) { v = k.substr(eq + 1); k = k.substr(0, eq); }
            else if (i + 1 < argc && std::strncmp(argv[i + 1], "--", 2) != 0) { v = argv[++i]; }
            s.args[k] = v;
        }
    }
    s.seed = static_cast<uint64_t>(arg_int("seed", 0));
    s.tier = arg("tier", "quick");
    s.out_path = arg("out", "");
    if (!s.out_path.empty()) {
        s.out_fd = ::open(s.out_path.c_str(), O_WRONLY | O_CREAT | O_APPEND, 0644);
        if (s.out_fd < 0) { std::perror("open --out"); std::exit(2); }
    }
    std::string pp = arg("progress", "");
    if (!pp.empty()) {
        int fd = ::open(pp.c_str(), O_RDWR | O_CREAT, 0644);
        if (fd >= 0 && ::ftruncate(fd, 64) == 0) {
            void* m = ::mmap(nullptr, 64, PROT_READ | PROT_WRITE, MAP_SHARED, fd, 0);
            if (m != MAP_FAILED) s.progress = static_cast<volatile uint64_t*>(m);
        }
        if (fd >= 0) ::close(fd);
    }
}

inline void heartbeat() {
    State& s = st();
    if (s.progress) __atomic_fetch_add(const_cast<uint64_t*>(&s.progress[1]), 1, __ATOMIC_RELAXED);
}

// Runs cases [from, to). Returns the process exit code (0 always unless the
// harness itself is broken; violations are reported through the out file).
inline int run_cases(int argc, char** argv, uint64_t default_total, const case_fn& fn,
                     const std::function<void()>& at_end = nullptr) {
    parse_args(argc, argv);
    install_crash_handlers();
    State& s = st();
    uint64_t from = static_cast<uint64_t>(arg_int("from", 0));
    uint64_t to = static_cast<uint64_t>(arg_int("to", static_cast<int64_t>(default_total)));
    s.range_to = to;
    for (uint64_t i = from; i < to; ++i) {
        if (hang_counter().load() >= 3) { s.counters["cases_skipped_after_hangs"] += to - i; break; }
        s.current_case = i;
        if (s.progress) { __atomic_store_n(const_cast<uint64_t*>(&s.progress[0]), i, __ATOMIC_RELAXED); __atomic_fetch_add(const_cast<uint64_t*>(&s.progress[1]), 1, __ATOMIC_RELAXED); }
        s.case_desc[0] = 0;
        Rng rng{s.seed, i};
        try {
            fn(i, rng);
        } catch (const std::exception& e) {
            violation("harness: uncaught std::exception in case", e.what());
        } catch (...) {
            violation("harness: uncaught non-std exception in case", "");
        }
    }
    if (s.progress) s.progress[0] = ~0ULL;
    if (at_end) at_end();
    dump_stats(false);
    return 0;
}

} // namespace vh

// ASan calls this (if defined) before printing a report.
extern "C" __attribute__((used, visibility("default"))) void __asan_on_error() { vh::crash_record("asan"); }

#endif // VH_HPP
