// io_util.hpp - helpers to drive osmium::io::Reader / Writer from the model.

#ifndef VH_IO_UTIL_HPP
#define VH_IO_UTIL_HPP

#include "model.hpp"
#include "vh_hooks.hpp"

#include <osmium/io/any_input.hpp>
#include <osmium/io/any_output.hpp>
#include <osmium/io/reader.hpp>
#include <osmium/io/writer.hpp>
#include <osmium/thread/pool.hpp>

#include <cxxabi.h>
#include <fstream>
#include <sstream>
#include <sys/stat.h>
#include <typeinfo>

namespace iou {

inline std::string demangle(const char* n) {
    int st = 0;
    char* d = abi::__cxa_demangle(n, nullptr, nullptr, &st);
    std::string r = (st == 0 && d) ? d : n;
    std::free(d);
    return r;
}

struct ReadResult {
    mdl::Header header;
    std::vector<mdl::Obj> objs;
    bool ok = false;
    bool header_ok = false;
    std::string error;       // what()
    std::string error_type;  // demangled dynamic type
    size_t buffers = 0;
};

inline mdl::Header header_to_model(const osmium::io::Header& h) {
    mdl::Header m;
    m.generator = h.get("generator");
    m.multiple_versions = h.has_multiple_object_versions();
    for (const auto& b : h.boxes()) m.boxes.push_back(mdl::Box{b.bottom_left().x(), b.bottom_left().y(), b.top_right().x(), b.top_right().y()});
    return m;
}

template <typename... TArgs>
inline ReadResult read_all(const osmium::io::File& file, TArgs&&... args) {
    ReadResult r;
    try {
        osmium::io::Reader reader{file, std::forward<TArgs>(args)...};
        r.header = header_to_model(reader.header());
        r.header_ok = true;
        while (osmium::memory::Buffer buffer = reader.read()) {
            ++r.buffers;
            mdl::from_buffer(buffer, r.objs);
        }
        reader.close();
        r.ok = true;
    } catch (const std::exception& e) {
        r.error = e.what();
        r.error_type = demangle(typeid(e).name());
    }
    return r;
}

inline std::string slurp(const std::string& path) {
    std::ifstream in{path, std::ios::binary};
    std::ostringstream ss;
    ss << in.rdbuf();
    return ss.str();
}

inline void spit(const std::string& path, const std::string& data) {
    std::ofstream out{path, std::ios::binary | std::ios::trunc};
    out.write(data.data(), static_cast<std::streamsize>(data.size()));
}

inline std::string scratch_dir(const char* tag) {
    const char* cache = std::getenv("VERIF_CACHE");
    std::string base = cache ? cache : "/verif/.cache";
    std::string d = base + "/scratch/" + tag + "-" + std::to_string(::getpid());
    ::mkdir((base + "/scratch").c_str(), 0755);
    ::mkdir(d.c_str(), 0755);
    return d;
}

inline osmium::io::Header model_to_header(const mdl::Header& m) {
    osmium::io::Header h;
    h.set("generator", m.generator);
    for (const auto& b : m.boxes) h.add_box(osmium::Box{osmium::Location{b.x1, b.y1}, osmium::Location{b.x2, b.y2}});
    return h;
}

} // namespace iou

#endif // VH_IO_UTIL_HPP
