// traverse.hpp - "a delivered object can be traversed completely without leaving
// the buffer that holds it", made observable:
//  * an explicit-bounds walk over the committed part of a Buffer (item sizes,
//    alignment, no item reaching past committed());
//  * every item is copied into a malloc block of exactly padded_size() bytes and
//    traversed there with the LIBRARY'S OWN accessors and iterators (user, tags,
//    node refs, members and roles, discussion comments, all strings). A single
//    byte of over-read hits an ASan red zone, although the original item sits
//    in the middle of a large buffer allocation.

#ifndef VH_TRAVERSE_HPP
#define VH_TRAVERSE_HPP

#include <osmium/memory/buffer.hpp>
#include <osmium/osm.hpp>
#include <osmium/osm/changeset.hpp>

#include <cstdlib>
#include <cstring>
#include <string>

namespace trv {

struct Stats { uint64_t items = 0, strings = 0, bytes = 0, objects = 0; };

inline uint64_t touch(const char* s, Stats& st) {
    // strlen through a volatile read loop: every byte up to the NUL is read
    uint64_t n = 0;
    while (s[n] != '\0') ++n;
    ++st.strings;
    st.bytes += n;
    return n;
}

inline void traverse_tags(const osmium::TagList& tags, Stats& st) {
    for (const auto& tag : tags) { touch(tag.key(), st); touch(tag.value(), st); }
}

// traverse one (exact-fit) item with the library's accessors
inline void traverse_item(const osmium::memory::Item& item, Stats& st) {
    ++st.items;
    switch (item.type()) {
        case osmium::item_type::node: {
            const auto& o = static_cast<const osmium::Node&>(item);
            touch(o.user(), st); traverse_tags(o.tags(), st);
            (void)o.location().x(); (void)o.id(); (void)o.version(); (void)o.timestamp(); (void)o.changeset(); (void)o.uid(); (void)o.visible();
            ++st.objects;
            break;
        }
        case osmium::item_type::way: {
            const auto& o = static_cast<const osmium::Way&>(item);
            touch(o.user(), st); traverse_tags(o.tags(), st);
            for (const auto& nr : o.nodes()) { st.bytes += static_cast<uint64_t>(nr.ref() & 1); (void)nr.location().x(); }
            ++st.objects;
            break;
        }
        case osmium::item_type::relation: {
            const auto& o = static_cast<const osmium::Relation&>(item);
            touch(o.user(), st); traverse_tags(o.tags(), st);
            for (const auto& m : o.members()) { (void)m.ref(); (void)m.type(); touch(m.role(), st); }
            ++st.objects;
            break;
        }
        case osmium::item_type::area: {
            const auto& o = static_cast<const osmium::Area&>(item);
            touch(o.user(), st); traverse_tags(o.tags(), st);
            ++st.objects;
            break;
        }
        case osmium::item_type::changeset: {
            const auto& o = static_cast<const osmium::Changeset&>(item);
            touch(o.user(), st); traverse_tags(o.tags(), st);
            for (const auto& c : o.discussion()) { (void)c.uid(); (void)c.date(); touch(c.user(), st); touch(c.text(), st); }
            (void)o.bounds(); (void)o.num_changes(); (void)o.num_comments(); (void)o.created_at(); (void)o.closed_at();
            ++st.objects;
            break;
        }
        default:
            break;
    }
}

// returns "" or a stable description of a structural problem
inline std::string traverse_buffer(const osmium::memory::Buffer& buffer, Stats& st) {
    const unsigned char* data = buffer.data();
    const size_t committed = buffer.committed();
    size_t off = 0;
    while (off < committed) {
        if (committed - off < sizeof(osmium::memory::Item)) return "buffer walk: trailing bytes smaller than an item header";
        const auto* item = reinterpret_cast<const osmium::memory::Item*>(data + off);
        const size_t sz = item->byte_size();
        const size_t padded = item->padded_size();
        if (sz < sizeof(osmium::memory::Item)) return "buffer walk: item smaller than its header";
        if (padded % osmium::memory::align_bytes != 0 || off % osmium::memory::align_bytes != 0) return "buffer walk: item not aligned";
        if (padded > committed - off) return "buffer walk: item reaches past the committed data";
        if (!item->removed()) {
            // exact-fit copy
            auto* copy = static_cast<unsigned char*>(std::malloc(padded));
            std::memcpy(copy, data + off, padded);
            traverse_item(*reinterpret_cast<const osmium::memory::Item*>(copy), st);
            std::free(copy);
        }
        off += padded;
    }
    return "";
}

} // namespace trv

#endif // VH_TRAVERSE_HPP
