// c02_enc_o5m.hpp - independent o5m / o5c encoder for check C02.
//
// Written from the format description in the OSM wiki ("O5m"), NOT from any
// reader. Free choices varied under the case's Rng: inline strings vs
// back-references into the 15000-entry string table, reset markers at
// arbitrary positions (always at type changes, as the real tools do), bounding
// box / file timestamp / sync / jump / unknown datasets, end marker present or
// absent, o5c deletions. Delta chains follow from the data.
//
// Points where the description is ambiguous are kept out of the files:
//  * string pairs whose total length is near the 250 character storage limit
//    (fit_o5m() moves such strings away from 244..256);
//  * "timestamp 0 = no author information": only used when the *stored delta*
//    and the *resulting timestamp* are both 0 (a reset is placed before the
//    object when the running timestamp is not 0);
//  * uid 0 is only used together with an empty user name (pair "\0\0");
//  * deltas never overflow int64 (a reset is placed before the object when
//    one would), coordinate deltas are stored as 32 bit wrap-around values
//    (the format defines them as 32 bit), changesets stay below 2^31.

#ifndef C02_ENC_O5M_HPP
#define C02_ENC_O5M_HPP

#include "../c02_enc_pbf.hpp"

#include <unordered_map>

namespace c02 {

inline size_t uvarint_len(uint64_t v) { size_t n = 1; while (v >= 0x80) { v >>= 7; ++n; } return n; }

// The table stores pairs of at most 250 characters (both strings together; osmconvert and the
// reader agree on that reading). Originally every pair of 244..256 characters was kept out of the
// files; now only the exact boundary is used deliberately (see boundary_pairs in c02_decode.cpp).
inline bool& allow_boundary_pairs() { static bool b = false; return b; }
inline bool in_window(size_t n) { return !allow_boundary_pairs() && n >= 244 && n <= 256; }

// restrict a data set to what o5m (o5c == false) or o5c can carry
inline void fit_o5m(std::vector<Obj>& D, bool o5c) {
    for (auto& o : D) {
        o.changeset &= 0x7fffffffU;
        if (o.version == 0) o.timestamp = 0;
        if (o.timestamp == 0) { o.changeset = 0; o.uid = 0; o.user.clear(); }
        if (o.uid == 0) o.user.clear();
        if (o.uid != 0 && in_window(uvarint_len(o.uid) + o.user.size())) o.user += std::string(20, 'w');
        for (auto& t : o.tags) if (in_window(t.k.size() + t.v.size())) t.v += std::string(20, 'w');
        for (auto& m : o.members) if (in_window(1 + m.role.size())) m.role += std::string(20, 'w');
        for (auto& n : o.nodes) { n.x = UNDEF; n.y = UNDEF; }
        if (!o5c) {
            o.visible = true;
        } else if (!o.visible) {
            o.tags.clear(); o.nodes.clear(); o.members.clear(); o.x = UNDEF; o.y = UNDEF;
        }
    }
}

struct O5mCfg {
    bool o5c = false;
    bool plain_style = false;     // no extra datasets, resets only at type changes
    int ref_percent = -1;         // probability of using a table reference when one is available (-1: random per file)
    int end_marker = -1;          // 1 yes 0 no -1 random
    bool trailing_extra = false;  // a sync/jump/timestamp/unknown dataset after the last object
};

struct O5mResult {
    std::string bytes;
    mdl::Header hexp;
    std::string desc;
    size_t resets = 0, refs_used = 0, inline_strings = 0, max_ref = 0, stored_total = 0, extra_datasets = 0;
    size_t last_dataset_bytes = 0;   // type byte + length + payload of the last dataset that has a length (0: none)
    size_t wrapped_coord_deltas = 0, forced_resets = 0, deletes = 0, refs_at_limit = 0;
    bool end_marker = false;
};

class O5mEncoder {
    vh::Rng& rng;
    O5mCfg cfg;
    O5mResult res;
    std::string out;
    int64_t c_id = 0, c_ts = 0, c_cs = 0, c_lon = 0, c_lat = 0, c_wref = 0, c_mref[3] = {0, 0, 0};
    uint64_t nstored = 0;                               // entries stored since the last reset
    std::unordered_map<std::string, uint64_t> last;     // content -> sequence number (1-based) of its latest copy
    int ref_percent = 50;

    static void put_u(std::string& s, uint64_t v) { pb::put_varint(s, v); }
    static void put_s(std::string& s, int64_t v) { pb::put_varint(s, pb::zigzag(v)); }   // o5m signed numbers: sign in the lowest bit, as zigzag

    void reset() {
        out += static_cast<char>(0xff);
        c_id = c_ts = c_cs = c_lon = c_lat = c_wref = 0;
        c_mref[0] = c_mref[1] = c_mref[2] = 0;
        nstored = 0;
        last.clear();
        ++res.resets;
    }

    // content = the string(s) including their terminating NUL bytes
    void put_string(std::string& ds, const std::string& content) {
        const auto it = last.find(content);
        if (it != last.end()) {
            const uint64_t ref = nstored - it->second + 1;
            if (ref <= 15000 && static_cast<int>(rng.below(100)) < ref_percent) {
                put_u(ds, ref);
                ++res.refs_used;
                res.max_ref = std::max<size_t>(res.max_ref, ref);
                if (ref == 15000) ++res.refs_at_limit;
                return;
            }
        }
        ds += '\0';
        ds += content;
        ++res.inline_strings;
        if (content.size() <= 252) {   // both strings together at most 250 characters (window 244..256 never occurs)
            last[content] = ++nstored;
            ++res.stored_total;
        }
    }

    void version_block(std::string& ds, const Obj& o) {
        if (o.version == 0) { ds += '\0'; return; }
        put_u(ds, o.version);
        put_s(ds, static_cast<int64_t>(o.timestamp) - c_ts);
        c_ts = o.timestamp;
        if (o.timestamp == 0) return;
        put_s(ds, static_cast<int64_t>(o.changeset) - c_cs);
        c_cs = o.changeset;
        std::string content;
        if (o.uid != 0) put_u(content, o.uid);
        content += '\0';
        content += o.user;
        content += '\0';
        put_string(ds, content);
    }

    void tags(std::string& ds, const Obj& o) {
        for (const auto& t : o.tags) {
            std::string content = t.k;
            content += '\0';
            content += t.v;
            content += '\0';
            put_string(ds, content);
        }
    }

    int32_t coord_delta(int64_t& counter, int32_t v) {
        const int64_t d = static_cast<int64_t>(v) - counter;   // counter always holds an int32 value
        counter = v;
        if (d > std::numeric_limits<int32_t>::max() || d < std::numeric_limits<int32_t>::min()) ++res.wrapped_coord_deltas;
        return static_cast<int32_t>(static_cast<uint32_t>(static_cast<uint64_t>(d)));   // 32 bit wrap-around
    }

    bool needs_reset_before(const Obj& o) const {
        if (!sub_fits(o.id, c_id)) return true;
        if (o.version != 0 && o.timestamp == 0 && c_ts != 0) return true;
        if (o.type == mdl::WAY && !o.nodes.empty() && !sub_fits(o.nodes[0].ref, c_wref)) return true;
        if (o.type == mdl::RELATION) {
            bool seen[3] = {false, false, false};
            for (const auto& m : o.members) {
                if (!seen[m.type - 1]) { seen[m.type - 1] = true; if (!sub_fits(m.ref, c_mref[m.type - 1])) return true; }
            }
        }
        return false;
    }

    void dataset(unsigned char type, const std::string& payload) {
        out += static_cast<char>(type);
        put_u(out, payload.size());
        out += payload;
        res.last_dataset_bytes = 1 + uvarint_len(payload.size()) + payload.size();
    }

    void object(const Obj& o) {
        std::string ds;
        put_s(ds, o.id - c_id);
        c_id = o.id;
        version_block(ds, o);
        if (cfg.o5c && !o.visible) {
            ++res.deletes;
        } else if (o.type == mdl::NODE) {
            put_s(ds, coord_delta(c_lon, o.x));
            put_s(ds, coord_delta(c_lat, o.y));
            tags(ds, o);
        } else if (o.type == mdl::WAY) {
            std::string refs;
            for (const auto& n : o.nodes) { put_s(refs, n.ref - c_wref); c_wref = n.ref; }
            put_u(ds, refs.size());
            ds += refs;
            tags(ds, o);
        } else {
            std::string refs;
            for (const auto& m : o.members) {
                put_s(refs, m.ref - c_mref[m.type - 1]);
                c_mref[m.type - 1] = m.ref;
                std::string content(1, static_cast<char>('0' + m.type - 1));
                content += m.role;
                content += '\0';
                put_string(refs, content);
            }
            put_u(ds, refs.size());
            ds += refs;
            tags(ds, o);
        }
        dataset(static_cast<unsigned char>(0x10 + o.type), ds);
    }

    void extra_dataset() {
        ++res.extra_datasets;
        std::string p;
        switch (rng.below(4)) {
            case 0:   // file timestamp
                put_s(p, static_cast<int64_t>(rng.below(2000000000)));
                dataset(0xdc, p);
                vh::cover("o5m_extra_dataset", "timestamp");
                break;
            case 1:   // sync
                p.assign(static_cast<size_t>(rng.chance(1, 2) ? 7 : rng.below(20)), '\0');
                dataset(0xee, p);
                vh::cover("o5m_extra_dataset", "sync");
                break;
            case 2:   // jump
                put_u(p, rng.below(1000000));
                put_u(p, rng.below(1000000));
                dataset(0xef, p);
                vh::cover("o5m_extra_dataset", "jump");
                break;
            default: {   // dataset type unknown to this version of the format: has a length, must be skipped
                static const unsigned char types[] = {0x13, 0x14, 0x20, 0x7f, 0x80, 0xc0, 0xda, 0xdd, 0xdf, 0xe1, 0xe8, 0xed};
                p.assign(static_cast<size_t>(rng.chance(1, 6) ? rng.below(400) : rng.below(12)), '\0');
                for (auto& c : p) c = static_cast<char>(rng.below(256));
                dataset(rng.pick(types), p);
                vh::cover("o5m_extra_dataset", "unknown");
                break;
            }
        }
    }

public:
    O5mEncoder(vh::Rng& r, const O5mCfg& c) : rng(r), cfg(c) {}

    // D must have passed fit_refs() and fit_o5m()
    O5mResult encode(const std::vector<Obj>& D, const mdl::Header& H) {
        static const int percents[] = {0, 20, 50, 80, 100};
        ref_percent = cfg.ref_percent >= 0 ? cfg.ref_percent : rng.pick(percents);
        out += static_cast<char>(0xff);
        out += static_cast<char>(0xe0);
        out += static_cast<char>(0x04);
        out += cfg.o5c ? "o5c2" : "o5m2";
        res.hexp.multiple_versions = cfg.o5c;
        const bool extras = !cfg.plain_style && rng.chance(1, 3);
        if (!cfg.plain_style && rng.chance(1, 4)) { out += static_cast<char>(0xff); ++res.resets; }
        if (extras && rng.coin()) extra_dataset();
        if (!H.boxes.empty()) {
            std::string p;
            put_s(p, H.boxes[0].x1); put_s(p, H.boxes[0].y1); put_s(p, H.boxes[0].x2); put_s(p, H.boxes[0].y2);
            dataset(0xdb, p);
            res.hexp.boxes.push_back(H.boxes[0]);
        }
        if (extras && rng.coin()) extra_dataset();
        int prev_type = -1;
        const unsigned reset_den = cfg.plain_style ? 0 : static_cast<unsigned>(rng.pick(std::vector<int>{0, 3, 10, 40}));
        for (const auto& o : D) {
            if (o.type != prev_type) {
                reset();
            } else if (needs_reset_before(o)) {
                reset();
                ++res.forced_resets;
            } else if (reset_den && rng.chance(1, reset_den)) {
                reset();
            }
            if (o.type != prev_type && needs_reset_before(o)) throw std::runtime_error{"c02 o5m encoder: object not encodable after reset (harness bug)"};
            prev_type = o.type;
            object(o);
            if (extras && rng.chance(1, 12)) extra_dataset();
        }
        if (cfg.trailing_extra) extra_dataset();
        if (!cfg.plain_style && rng.chance(1, 6)) { out += static_cast<char>(0xff); ++res.resets; }   // a trailing reset
        res.end_marker = cfg.end_marker >= 0 ? cfg.end_marker == 1 : !rng.chance(1, 4);
        if (res.end_marker) out += static_cast<char>(0xfe);
        res.bytes = std::move(out);
        res.desc = vh::fmt("%s: %zu objects, %zu resets (%zu forced), refs=%zu (max %zu) inline=%zu stored=%zu extra_datasets=%zu wrapped_coord_deltas=%zu deletes=%zu end_marker=%d last_dataset=%zu bytes file=%zu bytes",
                           cfg.o5c ? "o5c" : "o5m", D.size(), res.resets, res.forced_resets, res.refs_used, res.max_ref, res.inline_strings, res.stored_total, res.extra_datasets,
                           res.wrapped_coord_deltas, res.deletes, res.end_marker, res.last_dataset_bytes, res.bytes.size());
        return std::move(res);
    }
};

} // namespace c02

#endif // C02_ENC_O5M_HPP
