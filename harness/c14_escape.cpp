// C14 - text-format string escaping is injective and exactly undone by the parsers.
//
// Library code under test (all real, nothing copied):
//   osmium::io::detail::append_utf8_encoded_string   (OPL escaping)
//   osmium::io::detail::append_xml_encoded_string    (XML escaping)
//   osmium::io::detail::append_debug_encoded_string  (memory-safety / cut-off clause only)
//   osmium::io::detail::opl_parse_string             (OPL unescaping)
//   OPLOutputBlock / XMLOutputBlock / opl_parse_line (mode=writer: every string site of the writers)
// The XML "parser" is expat, the same library the XML reader of libosmium uses.
//
// Oracles (all independent of the library): RFC 3629 encoder, Unicode table 3-7
// well-formedness walker, the XML 1.0 "Char" production, byte scans of the
// escaped forms for the structural characters named by the property.
//
// modes (case = deterministic function of (seed, index)):
//   cp     : case = block of 256 code points; every scalar value U+0001..U+10FFFF alone
//            and in the contexts a<cp>b, <cp>0, %<cp>, <cp><cp>   (exhaustive)
//   seq    : every sequence of length <= 4 over a 22-symbol structural alphabet;
//            case = 2-symbol prefix (last case: lengths 0 and 1)         (exhaustive)
//   rand   : random long strings (boundary-heavy code point classes), plus
//            truncated-tail and hostile-byte variants in exact-size heap blocks
//   bytes  : every byte string of length 0..4 (enumerated as the 2^32 values of four
//            bytes, cut at the first NUL); case = block of 2^16, --stride n samples.
//            asan build: input in an exact-size malloc block; other builds: input ends
//            at a PROT_NONE guard page. Cut-off final sequence => exception demanded.
//   bytesb : 54 complete blocks of the same enumeration at the borders of every lead-byte
//            and second-byte class (all strings of length <= 2 starting there)
//   inj    : case 0 OPL / case 1 XML: escaped forms of all single scalar values and of
//            all alphabet sequences of length 2..4 are pairwise distinct
//   writer : random strings at every string site of node/way/relation/changeset through
//            the real OPLOutputBlock -> opl_parse_line and XMLOutputBlock -> expat

#include "vh.hpp"
#include "vh_hooks.hpp"

#include <osmium/builder/osm_object_builder.hpp>
#include <osmium/io/detail/opl_output_format.hpp>
#include <osmium/io/detail/opl_parser_functions.hpp>
#include <osmium/io/detail/string_util.hpp>
#include <osmium/io/detail/xml_output_format.hpp>
#include <osmium/io/reader.hpp>
#include <osmium/io/xml_input.hpp>
#include <osmium/memory/buffer.hpp>
#include <osmium/osm/changeset.hpp>
#include <osmium/osm/node.hpp>
#include <osmium/osm/relation.hpp>
#include <osmium/osm/way.hpp>

#include <expat.h>

#include <algorithm>
#include <csetjmp>
#include <cxxabi.h>
#include <dlfcn.h>
#include <functional>
#include <sys/mman.h>
#include <utility>

namespace iod = osmium::io::detail;

namespace {

// ------------------------------------------------------------------ Unicode reference

inline bool is_surrogate(uint32_t cp) { return cp >= 0xD800 && cp <= 0xDFFF; }
inline bool is_scalar(uint32_t cp) { return cp <= 0x10FFFF && !is_surrogate(cp); }

// XML 1.0 (5th ed.) production [2] Char
inline bool xml_char(uint32_t cp) {
    return cp == 0x9 || cp == 0xA || cp == 0xD || (cp >= 0x20 && cp <= 0xD7FF) || (cp >= 0xE000 && cp <= 0xFFFD) ||
           (cp >= 0x10000 && cp <= 0x10FFFF);
}

// RFC 3629 encoder
void u8(uint32_t cp, std::string& o) {
    if (cp < 0x80) {
        o += static_cast<char>(cp);
    } else if (cp < 0x800) {
        o += static_cast<char>(0xC0 | (cp >> 6));
        o += static_cast<char>(0x80 | (cp & 0x3F));
    } else if (cp < 0x10000) {
        o += static_cast<char>(0xE0 | (cp >> 12));
        o += static_cast<char>(0x80 | ((cp >> 6) & 0x3F));
        o += static_cast<char>(0x80 | (cp & 0x3F));
    } else {
        o += static_cast<char>(0xF0 | (cp >> 18));
        o += static_cast<char>(0x80 | ((cp >> 12) & 0x3F));
        o += static_cast<char>(0x80 | ((cp >> 6) & 0x3F));
        o += static_cast<char>(0x80 | (cp & 0x3F));
    }
}
std::string u8s(uint32_t cp) { std::string s; u8(cp, s); return s; }

// Well-formedness per Unicode 15 table 3-7.
enum class U8 { wellformed, cutoff, invalid };
struct U8Info {
    U8 cls = U8::wellformed;
    int need = 0;   // cutoff: length announced by the lead byte
    int have = 0;   // cutoff: bytes of that sequence present before the NUL
};

U8Info analyse(const unsigned char* s, size_t len, std::vector<uint32_t>* cps = nullptr) {
    U8Info r;
    size_t i = 0;
    while (i < len) {
        const unsigned char b = s[i];
        if (b < 0x80) { if (cps) cps->push_back(b); ++i; continue; }
        int n = 0;
        unsigned lo = 0x80, hi = 0xBF;
        uint32_t cp = 0;
        if (b >= 0xC2 && b <= 0xDF) { n = 2; cp = b & 0x1F; }
        else if (b == 0xE0) { n = 3; lo = 0xA0; cp = b & 0x0F; }
        else if (b >= 0xE1 && b <= 0xEC) { n = 3; cp = b & 0x0F; }
        else if (b == 0xED) { n = 3; hi = 0x9F; cp = b & 0x0F; }
        else if (b == 0xEE || b == 0xEF) { n = 3; cp = b & 0x0F; }
        else if (b == 0xF0) { n = 4; lo = 0x90; cp = b & 0x07; }
        else if (b >= 0xF1 && b <= 0xF3) { n = 4; cp = b & 0x07; }
        else if (b == 0xF4) { n = 4; hi = 0x8F; cp = b & 0x07; }
        else { r.cls = U8::invalid; return r; }
        for (int j = 1; j < n; ++j) {
            if (i + j == len) { r.cls = U8::cutoff; r.need = n; r.have = j; return r; }
            const unsigned char c = s[i + j];
            const unsigned l = (j == 1) ? lo : 0x80, h = (j == 1) ? hi : 0xBF;
            if (c < l || c > h) { r.cls = U8::invalid; return r; }
            cp = (cp << 6) | (c & 0x3F);
        }
        if (cps) cps->push_back(cp);
        i += n;
    }
    return r;
}

std::vector<uint32_t> decode(const std::string& s) {
    std::vector<uint32_t> v;
    analyse(reinterpret_cast<const unsigned char*>(s.data()), s.size(), &v);
    return v;
}

// stable class of a code point (used in violation keys)
std::string cls(uint32_t cp) {
    if (cp == 0x9) return "U+0009 TAB";
    if (cp == 0xA) return "U+000A LF";
    if (cp == 0xD) return "U+000D CR";
    if (cp < 0x20) return "C0 control";
    if (cp == 0x20) return "U+0020 SPACE";
    if (cp < 0x7F) return vh::fmt("'%c' U+%04X", static_cast<char>(cp), cp);
    if (cp <= 0xA0) return "U+007F-00A0";
    if (cp <= 0xFF) return "U+00A1-00FF";
    if (cp <= 0x5FF) return "U+0100-05FF";
    if (cp <= 0x7FF) return "U+0600-07FF";
    if (cp <= 0xFFFF) return "U+0800-FFFF";
    if (cp <= 0xFFFFF) return "U+10000-FFFFF";
    return "U+100000-10FFFF";
}

std::string show(const std::string& s) {
    std::vector<uint32_t> v = decode(s);
    std::string o = vh::fmt("%zu code point(s), %zu byte(s):", v.size(), s.size());
    for (size_t i = 0; i < v.size() && i < 24; ++i) o += vh::fmt(" U+%04X", v[i]);
    if (v.size() > 24) o += " ...";
    return o;
}

// NUL-terminated copy in a heap block of exactly size+1 bytes: one byte of
// over-read hits an ASan red zone.
struct Exact {
    char* p;
    size_t n;
    explicit Exact(const std::string& s) : p(static_cast<char*>(std::malloc(s.size() + 1))), n(s.size()) {
        std::memcpy(p, s.data(), s.size());
        p[s.size()] = 0;
    }
    Exact(const Exact&) = delete;
    Exact& operator=(const Exact&) = delete;
    ~Exact() { std::free(p); }
};

// ------------------------------------------------------------------ OPL

// Scan of an escaped OPL string for the structural characters of the format.
// A '%' is fine only as delimiter of %<1..8 hex digits>%.
const char* opl_structural(const std::string& e) {
    size_t i = 0;
    while (i < e.size()) {
        const unsigned char c = static_cast<unsigned char>(e[i]);
        if (c == '%') {
            size_t j = i + 1;
            while (j < e.size() && std::isxdigit(static_cast<unsigned char>(e[j]))) ++j;
            const size_t nd = j - (i + 1);
            if (nd < 1 || nd > 8 || j >= e.size() || e[j] != '%') return "percent sign outside a well-formed %hex% escape";
            i = j + 1;
            continue;
        }
        switch (c) {
            case ' ': return "space";
            case ',': return "comma";
            case '=': return "equals sign";
            case '@': return "at-sign";
            case '\n': return "line feed";
            case '\r': return "carriage return";
            default: break;
        }
        ++i;
    }
    return nullptr;
}

struct Outcome {
    std::string kind;     // empty = held
    std::string detail;
    explicit operator bool() const { return !kind.empty(); }
};

// the part after escaping: structural scan, real parser, comparison
Outcome opl_after_escape(const std::string& s, const std::string& esc) {
    if (const char* w = opl_structural(esc)) return {std::string("escaped form contains a raw structural character: ") + w, ""};
    Exact e{esc};
    const char* p = e.p;
    std::string back;
    try {
        iod::opl_parse_string(&p, back);
    } catch (const std::exception& ex) {
        return {"opl_parse_string rejects the escaped form", ex.what()};
    }
    if (p != e.p + esc.size()) return {"opl_parse_string stops before the end of the escaped form", vh::fmt("consumed %zd of %zu bytes", p - e.p, esc.size())};
    if (back != s) return {"opl_parse_string(escape(s)) != s", "got " + show(back) + " hex=" + vh::hexdump(back, 64)};
    return {};
}

Outcome opl_check(const std::string& s, std::string* esc_out = nullptr) {
    Exact in{s};
    std::string esc;
    try {
        iod::append_utf8_encoded_string(esc, in.p);
    } catch (const std::exception& ex) {
        return {"escaper throws for a string of Unicode scalar values", ex.what()};
    } catch (...) {
        return {"escaper throws for a string of Unicode scalar values", "non-std exception"};
    }
    if (esc_out) *esc_out = esc;
    return opl_after_escape(s, esc);
}

// ------------------------------------------------------------------ XML

// Scan of an escaped XML string (attribute value / element text as the writer
// emits it): markup and quote characters only inside references; no raw line
// breaks or tabs.
const char* xml_structural(const std::string& e) {
    size_t i = 0;
    while (i < e.size()) {
        const char c = e[i];
        switch (c) {
            case '<': return "'<'";
            case '>': return "'>'";
            case '"': return "double quote";
            case '\'': return "apostrophe";
            case '\n': return "line feed";
            case '\r': return "carriage return";
            case '\t': return "tab";
            default: break;
        }
        if (c == '&') {
            const size_t semi = e.find(';', i);
            if (semi == std::string::npos || semi - i > 12) return "'&' that does not start a well-formed reference";
            const std::string name = e.substr(i + 1, semi - i - 1);
            bool ok = name == "amp" || name == "lt" || name == "gt" || name == "quot" || name == "apos";
            if (!ok && name.size() >= 2 && name[0] == '#') {
                size_t k = 1;
                bool hex = false;
                if (name[1] == 'x') { hex = true; k = 2; }
                ok = k < name.size();
                for (; k < name.size(); ++k) {
                    const unsigned char d = static_cast<unsigned char>(name[k]);
                    if (!(hex ? std::isxdigit(d) : std::isdigit(d))) ok = false;
                }
            }
            if (!ok) return "'&' that does not start a well-formed reference";
            i = semi + 1;
            continue;
        }
        ++i;
    }
    return nullptr;
}

// one expat parser per process, reset between documents
struct Xml {
    XML_Parser p = nullptr;
    std::function<void(const char*, const char**)> on_start;
    std::function<void(const char*)> on_end;
    std::function<void(const char*, int)> on_text;

    static void XMLCALL s_start(void* u, const XML_Char* n, const XML_Char** a) { auto* x = static_cast<Xml*>(u); if (x->on_start) x->on_start(n, a); }
    static void XMLCALL s_end(void* u, const XML_Char* n) { auto* x = static_cast<Xml*>(u); if (x->on_end) x->on_end(n); }
    static void XMLCALL s_text(void* u, const XML_Char* t, int len) { auto* x = static_cast<Xml*>(u); if (x->on_text) x->on_text(t, len); }

    bool parse(const std::string& doc, std::string& err) {
        if (!p) p = XML_ParserCreate(nullptr); else XML_ParserReset(p, nullptr);
        if (!p) { err = "XML_ParserCreate failed"; return false; }
        XML_SetUserData(p, this);
        XML_SetElementHandler(p, s_start, s_end);
        XML_SetCharacterDataHandler(p, s_text);
        if (XML_Parse(p, doc.data(), static_cast<int>(doc.size()), 1) == XML_STATUS_ERROR) {
            err = vh::fmt("%s at line %lu column %lu", XML_ErrorString(XML_GetErrorCode(p)),
                          static_cast<unsigned long>(XML_GetCurrentLineNumber(p)), static_cast<unsigned long>(XML_GetCurrentColumnNumber(p)));
            return false;
        }
        return true;
    }
};
Xml& xml() { static Xml x; return x; }

const char* XML_DECL = "<?xml version='1.0' encoding='UTF-8'?>\n";

Outcome xml_check(const std::string& s, std::string* esc_out = nullptr) {
    Exact in{s};
    std::string esc;
    try {
        iod::append_xml_encoded_string(esc, in.p);
    } catch (const std::exception& ex) {
        return {"escaper throws for a string of XML characters", ex.what()};
    }
    if (esc_out) *esc_out = esc;
    if (const char* w = xml_structural(esc)) return {std::string("escaped form contains a raw ") + w, ""};
    std::string doc = XML_DECL;
    doc += "<a v=\"";
    doc += esc;
    doc += "\">";
    doc += esc;
    doc += "</a>";
    std::string attr, text, err;
    bool got = false;
    Xml& x = xml();
    x.on_start = [&](const char*, const char** a) {
        for (; a && a[0]; a += 2) if (std::strcmp(a[0], "v") == 0) { attr = a[1]; got = true; }
    };
    x.on_end = nullptr;
    x.on_text = [&](const char* t, int len) { text.append(t, static_cast<size_t>(len)); };
    if (!x.parse(doc, err)) return {"escaped form rejected by the XML parser (expat)", err};
    if (!got) return {"escaped form rejected by the XML parser (expat)", "attribute not delivered"};
    if (attr != s) return {"XML attribute value round trip differs", "got " + show(attr) + " hex=" + vh::hexdump(attr, 64)};
    if (text != s) return {"XML element text round trip differs", "got " + show(text) + " hex=" + vh::hexdump(text, 64)};
    return {};
}

// ------------------------------------------------------------------ reporting

using Checker = Outcome (*)(const std::string&, std::string*);

// One violation per distinct class of code point of s that already fails the
// same check on its own (key = failure kind of that single code point + its
// class); if every code point passes alone, the failure needs the sequence.
void report(const char* format, Checker chk, const Outcome& o, const std::string& s, const std::string& esc) {
    const std::string detail = "input " + show(s) + " hex=" + vh::hexdump(s, 64) + " escaped='" + esc.substr(0, 200) + "' " + o.detail;
    std::vector<uint32_t> v = decode(s);
    if (v.size() == 1) {
        vh::violation(std::string(format) + ": " + o.kind + " [" + cls(v[0]) + "]", detail);
        return;
    }
    std::sort(v.begin(), v.end());
    v.erase(std::unique(v.begin(), v.end()), v.end());
    std::vector<std::string> keys;
    for (uint32_t cp : v) {
        const Outcome single = chk(u8s(cp), nullptr);
        if (!single) continue;
        const std::string key = std::string(format) + ": " + single.kind + " [" + cls(cp) + "]";
        if (std::find(keys.begin(), keys.end(), key) != keys.end()) continue;
        keys.push_back(key);
        vh::violation(key, vh::fmt("(U+%04X inside) ", cp) + detail);
    }
    if (keys.empty()) vh::violation(std::string(format) + ": " + o.kind + " [only in a sequence]", detail);
}

bool do_opl(const std::string& s) {
    std::string esc;
    Outcome o = opl_check(s, &esc);
    vh::evaluated();
    if (o) { report("OPL", opl_check, o, s, esc); return false; }
    return true;
}

bool do_xml(const std::string& s) {
    std::string esc;
    Outcome o = xml_check(s, &esc);
    vh::evaluated();
    if (o) { report("XML", xml_check, o, s, esc); return false; }
    return true;
}

// ------------------------------------------------------------------ mode cp

void case_cp(uint64_t block, vh::Rng&) {
    const uint32_t lo = static_cast<uint32_t>(block) * 256U;
    vh::set_case_desc("cp block U+%04X..U+%04X", lo, lo + 255);
    uint64_t n_opl = 0, n_xml = 0, n_cp = 0, n_escaped = 0, n_pass = 0;
    for (uint32_t cp = lo; cp < lo + 256U; ++cp) {
        if (cp == 0 || !is_scalar(cp)) continue;
        ++n_cp;
        const std::string c = u8s(cp);
        const std::string ctx[5] = {c, "a" + c + "b", c + "0", "%" + c, c + c};
        for (const auto& s : ctx) { do_opl(s); ++n_opl; }
        if (xml_char(cp)) for (const auto& s : ctx) { do_xml(s); ++n_xml; }
        // which regime of the escaper did this code point exercise?
        std::string esc;
        try { iod::append_utf8_encoded_string(esc, c.c_str()); } catch (...) {}
        if (esc == c) ++n_pass;
        else { ++n_escaped; if (cp % 251 == 0 || cp < 0x800) vh::cover("opl_escape_lengths", std::to_string(esc.size())); }
    }
    vh::count("cp_scalar_values", n_cp);
    vh::count("cp_opl_roundtrips", n_opl);
    vh::count("cp_xml_roundtrips", n_xml);
    vh::count("cp_opl_escaped", n_escaped);
    vh::count("cp_opl_passthrough", n_pass);
    vh::count("distinct_by_construction", n_opl + n_xml);
    if (block == 0x1F6 || block == 0) vh::sample_str(vh::fmt("code points U+%04X..U+%04X each alone and in a<cp>b, <cp>0, %%<cp>, <cp><cp> through OPL and XML", lo, lo + 255));
}

// ------------------------------------------------------------------ mode seq

const std::vector<std::string>& alphabet() {
    static const std::vector<std::string> a = [] {
        std::vector<std::string> v;
        for (char c : std::string(" ,=@%\n\r\t&<>\"'\\a0;#")) v.push_back(std::string(1, c));
        v.push_back(u8s(0xE9));      // 2-byte, passes through in OPL
        v.push_back(u8s(0xA0));      // 2-byte, escaped with two hex digits in OPL
        v.push_back(u8s(0x20AC));    // 3-byte
        v.push_back(u8s(0x1F600));   // 4-byte
        return v;
    }();
    return a;
}

void case_seq(uint64_t idx, vh::Rng&) {
    const auto& A = alphabet();
    const size_t K = A.size();
    uint64_t n = 0;
    auto both = [&](const std::string& s) { do_opl(s); do_xml(s); ++n; };
    if (idx == K * K) {
        vh::set_case_desc("seq lengths 0 and 1");
        both("");
        for (const auto& a : A) both(a);
    } else {
        const std::string pre = A[idx / K] + A[idx % K];
        vh::set_case_desc("seq prefix hex=%s", vh::hexdump(pre).c_str());
        both(pre);
        for (const auto& c : A) {
            const std::string s3 = pre + c;
            both(s3);
            for (const auto& d : A) both(s3 + d);
        }
        if (idx == 5) vh::sample_str("all sequences of length 2..4 starting with hex " + vh::hexdump(pre) + " over the 22-symbol alphabet");
    }
    vh::count("seq_strings", n);
    vh::count("distinct_by_construction", 2 * n);
}

// ------------------------------------------------------------------ random strings

const uint32_t BOUNDARIES[] = {0x01, 0x1F, 0x20, 0x21, 0x24, 0x25, 0x26, 0x2B, 0x2C, 0x2D, 0x3C, 0x3D, 0x3E, 0x3F, 0x40, 0x41,
                               0x7E, 0x7F, 0x80, 0xA0, 0xA1, 0xAC, 0xAD, 0xAE, 0xFF, 0x100, 0x5FF, 0x600, 0x7FF, 0x800, 0xFFF,
                               0x1000, 0xD7FF, 0xE000, 0xFFFD, 0xFFFE, 0xFFFF, 0x10000, 0xFFFFF, 0x100000, 0x10FFFF};
const char STRUCTURAL[] = " ,=@%\n\r\t&<>\"'\\;#0aF";

uint32_t gen_cp(vh::Rng& r, bool xml_only) {
    for (;;) {
        uint32_t cp = 0;
        switch (r.below(10)) {
            case 0: case 1: cp = static_cast<unsigned char>(STRUCTURAL[r.below(sizeof(STRUCTURAL) - 1)]); break;
            case 2: cp = static_cast<uint32_t>(r.range(0x20, 0x7E)); break;
            case 3: cp = static_cast<uint32_t>(static_cast<int64_t>(r.pick(BOUNDARIES)) + r.range(-1, 1)); break;
            case 4: cp = r.coin() ? static_cast<uint32_t>(r.range(0x01, 0x1F)) : static_cast<uint32_t>(r.range(0x7F, 0x9F)); break;
            case 5: cp = static_cast<uint32_t>(r.range(0x80, 0x7FF)); break;
            case 6: case 7: cp = static_cast<uint32_t>(r.range(0x800, 0xFFFF)); break;
            case 8: cp = static_cast<uint32_t>(r.range(0x10000, 0x10FFFF)); break;
            default: {
                static const uint32_t edges[] = {0xFFF0, 0xFFFF0, 0x10FFF0};
                cp = r.pick(edges) + static_cast<uint32_t>(r.below(32));
            }
        }
        if (cp == 0 || !is_scalar(cp)) continue;
        if (xml_only && !xml_char(cp)) continue;
        return cp;
    }
}

std::string gen_string(vh::Rng& r, bool xml_only, size_t max_cps, size_t max_bytes = ~size_t{0}) {
    size_t n;
    const uint64_t d = r.below(100);
    if (d < 30) n = r.below(9);
    else if (d < 70) n = r.below(65);
    else if (d < 95) n = r.below(1001);
    else n = r.below(20001);
    n = std::min(n, max_cps);
    std::string s;
    for (size_t i = 0; i < n; ++i) {
        const size_t before = s.size();
        u8(gen_cp(r, xml_only), s);
        if (s.size() > max_bytes) { s.resize(before); break; }
    }
    return s;
}

// a proper prefix of a well-formed multi-byte sequence
std::string gen_truncated(vh::Rng& r, int& need, int& have) {
    uint32_t cp;
    do { cp = gen_cp(r, false); } while (cp < 0x80);
    std::string full = u8s(cp);
    need = static_cast<int>(full.size());
    have = static_cast<int>(r.range(1, need - 1));
    return full.substr(0, static_cast<size_t>(have));
}

template <typename F>
bool throws(F&& f) {
    try { f(); } catch (...) { return true; }
    return false;
}

void demand_cutoff_exception(const char* in, int need, int have, const std::string& witness) {
    std::string out;
    if (!throws([&] { iod::append_utf8_encoded_string(out, in); }))
        vh::violation(vh::fmt("append_utf8_encoded_string: no exception for a %d-byte sequence cut off after %d byte(s) at the end of the string", need, have), witness);
    out.clear();
    if (!throws([&] { iod::append_debug_encoded_string(out, in, "", ""); }))
        vh::violation(vh::fmt("append_debug_encoded_string: no exception for a %d-byte sequence cut off after %d byte(s) at the end of the string", need, have), witness);
    out.clear();
    (void)throws([&] { iod::append_xml_encoded_string(out, in); });   // byte-transparent escaper: only memory safety is judged
    vh::count("cutoff_exception_demanded");
    vh::count("xml_cutoff_not_judged");
}

void case_rand(uint64_t idx, vh::Rng& r) {
    const bool xml_only = r.coin();
    const std::string s = gen_string(r, xml_only, 20000);
    vh::set_case_desc("rand %s hex=%s", xml_only ? "xml+opl" : "opl", vh::hexdump(s, 400).c_str());
    vh::distinct(vh::hash_str(s));
    do_opl(s);
    vh::count("rand_opl_strings");
    if (xml_only) { do_xml(s); vh::count("rand_xml_strings"); }
    vh::count_max("max_rand_string_bytes", s.size());
    if (idx % 4 == 1) {
        // well-formed prefix + sequence cut off by the end of the string
        int need = 0, have = 0;
        const std::string t = s.substr(0, std::min<size_t>(s.size(), 3000)) + gen_truncated(r, need, have);
        // substr may cut inside a sequence: re-validate the prefix with the reference walker
        U8Info k = analyse(reinterpret_cast<const unsigned char*>(t.data()), t.size());
        if (k.cls == U8::cutoff) {
            Exact in{t};
            demand_cutoff_exception(in.p, k.need, k.have, "hex=" + vh::hexdump(t, 80));
            vh::count("rand_cutoff_strings");
            vh::evaluated();
        }
    }
    if (idx % 4 == 2) {
        // hostile bytes: nothing is judged except memory safety (exact-size block)
        std::string h;
        const size_t n = r.below(40);
        for (size_t i = 0; i < n; ++i) h += static_cast<char>(r.chance(1, 3) ? r.range(0x80, 0xFF) : r.range(1, 0xFF));
        Exact in{h};
        vh::set_case_desc("rand hostile hex=%s", vh::hexdump(h, 100).c_str());
        std::string out;
        const bool t1 = throws([&] { iod::append_utf8_encoded_string(out, in.p); });
        out.clear();
        (void)throws([&] { iod::append_debug_encoded_string(out, in.p, "<", ">"); });
        out.clear();
        (void)throws([&] { iod::append_xml_encoded_string(out, in.p); });
        vh::count("rand_hostile_strings");
        if (t1) vh::count("rand_hostile_exceptions");
        vh::evaluated();
    }
    if (idx == 3 || idx == 7) vh::sample_str("random string: " + show(s));
}

// ------------------------------------------------------------------ mode bytes

#if defined(__SANITIZE_ADDRESS__)
constexpr bool HAVE_ASAN = true;
#else
constexpr bool HAVE_ASAN = false;
#endif

struct Placement {
    char* blocks[6] = {nullptr, nullptr, nullptr, nullptr, nullptr, nullptr};   // asan: malloc(len+1)
    char* guard_end = nullptr;                                                  // else: end of the readable page
    void init() {
        if (HAVE_ASAN) {
            for (size_t l = 0; l <= 4; ++l) blocks[l] = static_cast<char*>(std::malloc(l + 1));
        } else {
            const long ps = sysconf(_SC_PAGESIZE);
            void* m = ::mmap(nullptr, static_cast<size_t>(2 * ps), PROT_READ | PROT_WRITE, MAP_PRIVATE | MAP_ANONYMOUS, -1, 0);
            if (m == MAP_FAILED || ::mprotect(static_cast<char*>(m) + ps, static_cast<size_t>(ps), PROT_NONE) != 0) {
                vh::violation("harness: guard page setup failed", "");
                std::exit(2);
            }
            guard_end = static_cast<char*>(m) + ps;
        }
    }
    char* place(const unsigned char* b, size_t len) {
        char* p = HAVE_ASAN ? blocks[len] : guard_end - (len + 1);
        std::memcpy(p, b, len);
        p[len] = 0;
        return p;
    }
};

sigjmp_buf g_jb;
volatile sig_atomic_t g_armed = 0;
const char* volatile g_fn = "";

void guard_handler(int sig) {
    if (g_armed) { g_armed = 0; siglongjmp(g_jb, 1); }
    vh::signal_handler(sig);
}

void install_guard_handler() {
    if (HAVE_ASAN) return;   // ASan reports (and owns SIGSEGV)
    struct sigaction sa;
    std::memset(&sa, 0, sizeof(sa));
    sa.sa_handler = guard_handler;
    sa.sa_flags = SA_NODEFER;
    sigaction(SIGSEGV, &sa, nullptr);
    sigaction(SIGBUS, &sa, nullptr);
}

// Throw interception for the unsanitized 2^32 enumeration (--fastthrow 1): about
// three quarters of all byte strings make the escapers throw, and a C++ throw
// costs ~2 us of unwinding. While armed, our __cxa_throw (which the real library
// code calls for its real throw statements) destroys the exception object and
// longjmps back to the call site: "an exception was raised" is observed without
// unwinding. Not armed, it forwards to libstdc++. The asan runs of the same
// enumeration use real try/catch.
#if !defined(__SANITIZE_ADDRESS__) && !defined(__SANITIZE_THREAD__)
#define C14_THROW_INTERCEPT 1
#endif
sigjmp_buf g_tjb;
volatile sig_atomic_t g_throw_armed = 0;
bool g_fast_throw = false;
uint64_t g_intercepted = 0;

template <typename F>
__attribute__((noinline)) bool call_throws(F&& f) {
#ifdef C14_THROW_INTERCEPT
    if (g_fast_throw) {
        if (sigsetjmp(g_tjb, 0) != 0) return true;
        g_throw_armed = 1;
        f();
        g_throw_armed = 0;
        return false;
    }
#endif
    try { f(); } catch (...) { return true; }
    return false;
}

struct BytesStats {
    uint64_t strings = 0, wellformed = 0, cutoff = 0, invalid = 0, opl_exceptions = 0, roundtrips = 0;
};

void test_bytes(const unsigned char* b, size_t len, Placement& pl, BytesStats& st, std::string& out) {
    const char* in = pl.place(b, len);
    const U8Info k = analyse(b, len);
    ++st.strings;
    auto witness = [&] { return "bytes hex=" + vh::hexdump(std::string(reinterpret_cast<const char*>(b), len)); };

    if (!HAVE_ASAN) {
        if (sigsetjmp(g_jb, 0) != 0) {
            g_throw_armed = 0;
            vh::violation(std::string(g_fn) + ": reads beyond the terminating NUL (guard page hit)", witness());
            return;
        }
        g_armed = 1;
    }

    g_fn = "append_utf8_encoded_string";
    out.clear();
    bool threw = call_throws([&] { iod::append_utf8_encoded_string(out, in); });
    if (threw) ++st.opl_exceptions;
    switch (k.cls) {
        case U8::cutoff:
            ++st.cutoff;
            if (!threw) vh::violation(vh::fmt("append_utf8_encoded_string: no exception for a %d-byte sequence cut off after %d byte(s) at the end of the string", k.need, k.have), witness());
            break;
        case U8::wellformed: {
            ++st.wellformed;
            const std::string s(reinterpret_cast<const char*>(b), len);
            if (threw) {
                g_armed = 0;
                report("OPL", opl_check, Outcome{"escaper throws for a string of Unicode scalar values", ""}, s, "");
                g_armed = HAVE_ASAN ? 0 : 1;
            } else {
                g_fn = "opl_parse_string";
                Outcome o = opl_after_escape(s, out);
                ++st.roundtrips;
                if (o) { g_armed = 0; report("OPL", opl_check, o, s, out); g_armed = HAVE_ASAN ? 0 : 1; }
            }
            break;
        }
        case U8::invalid:
            ++st.invalid;   // overlong forms, stray continuation bytes, surrogates, bad lead bytes: not judged
            break;
    }

    g_fn = "append_debug_encoded_string";
    out.clear();
    threw = call_throws([&] { iod::append_debug_encoded_string(out, in, "", ""); });
    if (k.cls == U8::cutoff && !threw)
        vh::violation(vh::fmt("append_debug_encoded_string: no exception for a %d-byte sequence cut off after %d byte(s) at the end of the string", k.need, k.have), witness());

    g_fn = "append_xml_encoded_string";
    out.clear();
    (void)call_throws([&] { iod::append_xml_encoded_string(out, in); });
    g_armed = 0;
}

void bytes_block(uint64_t block, uint64_t stride, vh::Rng& rng) {
    static Placement pl;
    static bool init = false;
    if (!init) {
        pl.init();
        install_guard_handler();
        init = true;
#ifdef C14_THROW_INTERCEPT
        g_fast_throw = vh::arg_int("fastthrow", 0) != 0;
        if (g_fast_throw) {
            // self-test: armed throws are intercepted, unarmed throws propagate normally
            const uint64_t before = g_intercepted;
            const bool a = call_throws([] { throw std::runtime_error{"self-test"}; });
            const bool b = call_throws([] {});
            bool c = false;
            try { throw std::out_of_range{"self-test"}; } catch (const std::out_of_range&) { c = true; }
            if (!a || b || !c || g_intercepted != before + 1) {
                vh::violation("harness: throw interception self-test failed", vh::fmt("a=%d b=%d c=%d n=%" PRIu64, a, b, c, g_intercepted - before));
                std::exit(2);
            }
        }
#endif
    }
    const uint64_t lo = block << 16, hi = lo + (1ULL << 16);
    vh::set_case_desc("bytes block %02x %02x xx xx stride %" PRIu64, static_cast<unsigned>(block >> 8), static_cast<unsigned>(block & 0xFF), stride);
    BytesStats st;
    std::string out;
    for (uint64_t u = lo + (stride > 1 ? rng.below(stride) : 0); u < hi; u += stride) {
        const unsigned char b[5] = {static_cast<unsigned char>(u >> 24), static_cast<unsigned char>(u >> 16),
                                    static_cast<unsigned char>(u >> 8), static_cast<unsigned char>(u), 0};
        size_t len = 0;
        while (len < 4 && b[len]) ++len;
        bool canonical = true;   // the C string ends at the first NUL: skip duplicates of shorter strings
        for (size_t i = len; i < 4; ++i) if (b[i]) canonical = false;
        if (!canonical) continue;
        test_bytes(b, len, pl, st, out);
    }
    vh::evaluated(st.strings);
    vh::count("bytes_strings", st.strings);
    vh::count("bytes_wellformed_roundtrips", st.roundtrips);
    vh::count("bytes_cutoff_exception_demanded", st.cutoff);
    vh::count("bytes_other_invalid_not_judged", st.invalid);
    vh::count("bytes_opl_exceptions_observed", st.opl_exceptions);
    vh::count("xml_cutoff_not_judged", st.cutoff);
    vh::count("distinct_by_construction", st.strings);
    vh::count(HAVE_ASAN ? "bytes_strings_exact_malloc_block" : "bytes_strings_guard_page", st.strings);
    if (g_fast_throw) vh::count("bytes_strings_with_throw_interception", st.strings);
    if (block % 9973 == 1) vh::sample_str(vh::fmt("byte strings %02x %02x xx xx (stride %" PRIu64 "): %" PRIu64 " strings, %" PRIu64 " well-formed, %" PRIu64 " cut off", static_cast<unsigned>(block >> 8), static_cast<unsigned>(block & 0xFF), stride, st.strings, st.wellformed, st.cutoff));
}

void case_bytes(uint64_t block, vh::Rng& rng) { bytes_block(block, static_cast<uint64_t>(vh::arg_int("stride", 1)), rng); }

// complete blocks (stride 1) at the borders of every lead-byte / second-byte class;
// blocks 0x0000 and 0xXX00 hold the strings of length 0 and 1, block 0xXXYY those of length 2
const uint32_t BOUNDARY_BLOCKS[] = {0x0000, 0x0100, 0x2500, 0x4100, 0x7f00, 0x8000, 0xbf00, 0xc000, 0xc200, 0xdf00, 0xe000, 0xef00,
                                    0xf000, 0xf400, 0xf500, 0xf800, 0xff00, 0x2525, 0x417f, 0x7f80, 0x80bf, 0xc17f, 0xc280, 0xc2bf,
                                    0xc2c0, 0xdf80, 0xdfbf, 0xe07f, 0xe080, 0xe09f, 0xe0a0, 0xe0bf, 0xe282, 0xecbf, 0xed80, 0xed9f,
                                    0xeda0, 0xee80, 0xefbf, 0xf07f, 0xf080, 0xf08f, 0xf090, 0xf0bf, 0xf180, 0xf3bf, 0xf480, 0xf48f,
                                    0xf490, 0xf4bf, 0xf580, 0xf7bf, 0xf880, 0xffff};
constexpr uint64_t N_BOUNDARY_BLOCKS = sizeof(BOUNDARY_BLOCKS) / sizeof(BOUNDARY_BLOCKS[0]);

void case_bytes_boundary(uint64_t idx, vh::Rng& rng) { bytes_block(BOUNDARY_BLOCKS[idx], 1, rng); vh::count("bytes_complete_boundary_blocks"); }

// ------------------------------------------------------------------ mode inj

// input number -> string: numbers below 0x110000 are single code points, then
// alphabet sequences of length 2, 3, 4
bool inj_input(uint64_t id, bool for_xml, std::string& s) {
    s.clear();
    if (id < 0x110000) {
        const uint32_t cp = static_cast<uint32_t>(id);
        if (cp == 0 || !is_scalar(cp) || (for_xml && !xml_char(cp))) return false;
        u8(cp, s);
        return true;
    }
    id -= 0x110000;
    const auto& A = alphabet();
    const uint64_t K = A.size();
    uint64_t pow = K * K;
    for (int len = 2; len <= 4; ++len, pow *= K) {
        if (id < pow) {
            std::string parts[4];
            for (int i = len - 1; i >= 0; --i) { parts[i] = A[id % K]; id /= K; }
            for (int i = 0; i < len; ++i) s += parts[i];
            return true;
        }
        id -= pow;
    }
    return false;
}

void case_inj(uint64_t which, vh::Rng&) {
    const bool for_xml = which == 1;
    const char* name = for_xml ? "XML" : "OPL";
    vh::set_case_desc("inj %s", name);
    const uint64_t K = alphabet().size();
    const uint64_t total = 0x110000 + K * K + K * K * K + K * K * K * K;
    auto escape = [&](const std::string& s, std::string& e) {
        e.clear();
        try {
            if (for_xml) iod::append_xml_encoded_string(e, s.c_str()); else iod::append_utf8_encoded_string(e, s.c_str());
        } catch (...) { return false; }   // reported by the round-trip modes
        return true;
    };
    std::vector<std::pair<uint64_t, uint32_t>> h;
    h.reserve(total);
    std::string s, e;
    for (uint64_t id = 0; id < total; ++id) {
        if (!inj_input(id, for_xml, s)) continue;
        if (!escape(s, e)) continue;
        h.emplace_back(vh::hash_str(e), static_cast<uint32_t>(id));
    }
    std::sort(h.begin(), h.end());
    uint64_t collisions = 0;
    std::string s2, e2;
    for (size_t i = 1; i < h.size(); ++i) {
        if (h[i].first != h[i - 1].first) continue;
        inj_input(h[i - 1].second, for_xml, s);
        inj_input(h[i].second, for_xml, s2);
        escape(s, e);
        escape(s2, e2);
        if (e != e2) continue;   // 64-bit hash collision only
        ++collisions;
        const std::vector<uint32_t> a = decode(s), b = decode(s2);
        const std::string c = (a.size() == 1 && b.size() == 1) ? cls(std::max(a[0], b[0])) : std::string("sequences");
        vh::violation(std::string(name) + ": two distinct strings have the same escaped form [" + c + "]",
                      show(s) + " and " + show(s2) + " both escape to '" + e + "'");
    }
    vh::evaluated(h.size());
    vh::count(for_xml ? "inj_xml_strings" : "inj_opl_strings", h.size());
    vh::count("inj_collisions", collisions);
    vh::count("distinct_by_construction", h.size());
    vh::sample_str(vh::fmt("%s: escaped forms of %zu distinct strings (all single scalar values + all alphabet sequences of length 2..4) compared pairwise via sorted hashes", name, h.size()));
}

// ------------------------------------------------------------------ mode writer

struct Site { std::string site; std::string value; };

// expected strings of a buffer in the order the given format emits them
std::vector<Site> collect(const osmium::memory::Buffer& buf, bool xml_order, bool with_discussion) {
    std::vector<Site> v;
    for (const auto& item : buf) {
        if (item.type() == osmium::item_type::changeset) {
            const auto& cs = static_cast<const osmium::Changeset&>(item);
            v.push_back({"changeset user", cs.user()});
            for (const auto& t : cs.tags()) { v.push_back({"changeset tag key", t.key()}); v.push_back({"changeset tag value", t.value()}); }
            if (with_discussion)
                for (const auto& c : cs.discussion()) { v.push_back({"comment user", c.user()}); v.push_back({"comment text", c.text()}); }
            continue;
        }
        const auto& o = static_cast<const osmium::OSMObject&>(item);
        const char* tn = osmium::item_type_to_name(o.type());
        v.push_back({std::string(tn) + " user", o.user()});
        if (xml_order && o.type() == osmium::item_type::relation)
            for (const auto& m : static_cast<const osmium::Relation&>(o).members()) v.push_back({"member role", m.role()});
        for (const auto& t : o.tags()) { v.push_back({"tag key", t.key()}); v.push_back({"tag value", t.value()}); }
        if (!xml_order && o.type() == osmium::item_type::relation)
            for (const auto& m : static_cast<const osmium::Relation&>(o).members()) v.push_back({"member role", m.role()});
    }
    return v;
}

void build_objects(osmium::memory::Buffer& buf, vh::Rng& r, bool xml_only, std::vector<std::string>& all) {
    using namespace osmium::builder;
    auto S = [&](size_t max_cps = 250) {
        std::string s = gen_string(r, xml_only, r.chance(1, 8) ? max_cps : 24, 1000);
        all.push_back(s);
        return s;
    };
    auto tags = [&](Builder& parent) {
        const size_t n = r.below(3);
        if (n == 0 && r.coin()) return;
        TagListBuilder tb{parent};
        for (size_t i = 0; i < n; ++i) { const std::string k = S(), v = S(); tb.add_tag(k, v); }
    };
    const osmium::Timestamp ts{static_cast<uint32_t>(1500000000)};
    {
        NodeBuilder b{buf};
        b.set_id(1).set_version(1).set_changeset(7).set_uid(3).set_timestamp(ts).set_visible(true).set_location(osmium::Location{1.5, 2.5});
        b.set_user(S());
        tags(b);
    }
    buf.commit();
    {
        WayBuilder b{buf};
        b.set_id(2).set_version(2).set_changeset(7).set_uid(3).set_timestamp(ts).set_visible(true);
        b.set_user(S());
        tags(b);
        { WayNodeListBuilder wn{b}; wn.add_node_ref(1); wn.add_node_ref(5); }
    }
    buf.commit();
    {
        RelationBuilder b{buf};
        b.set_id(3).set_version(3).set_changeset(7).set_uid(3).set_timestamp(ts).set_visible(true);
        b.set_user(S());
        tags(b);
        {
            RelationMemberListBuilder ml{b};
            const size_t n = 1 + r.below(3);
            for (size_t i = 0; i < n; ++i) ml.add_member(i % 2 ? osmium::item_type::way : osmium::item_type::node, static_cast<int64_t>(i + 1), S());
        }
    }
    buf.commit();
    {
        ChangesetBuilder b{buf};
        b.set_id(7).set_uid(3).set_created_at(ts).set_closed_at(ts).set_num_changes(3).set_num_comments(1);
        b.set_user(S());
        tags(b);
        {
            ChangesetDiscussionBuilder db{b};
            const size_t n = 1 + r.below(2);
            for (size_t i = 0; i < n; ++i) {
                const std::string u = S(), t = S();
                db.add_comment(ts, 9, u.c_str());
                db.add_comment_text(t);
            }
        }
    }
    buf.commit();
}

void compare_sites(const char* what, const std::vector<Site>& expect, const std::vector<Site>& got, bool any_function_level_failure, const std::string& out) {
    if (expect.size() != got.size()) {
        if (any_function_level_failure) { vh::count("writer_failures_explained_by_function_level"); return; }
        vh::violation(std::string(what) + ": number of strings read back differs from the number written",
                      vh::fmt("expected %zu got %zu; output: ", expect.size(), got.size()) + out.substr(0, 1200));
        return;
    }
    for (size_t i = 0; i < expect.size(); ++i) {
        if (expect[i].value == got[i].value) continue;
        Checker chk = (what[0] == 'O') ? opl_check : xml_check;
        if (chk(expect[i].value, nullptr)) { vh::count("writer_failures_explained_by_function_level"); continue; }
        vh::violation(std::string(what) + ": " + expect[i].site + " differs although the escaping function round-trips this string",
                      "written " + show(expect[i].value) + " hex=" + vh::hexdump(expect[i].value, 64) + " read back hex=" + vh::hexdump(got[i].value, 64));
    }
}

void case_writer(uint64_t idx, vh::Rng& r) {
    const bool xml_only = r.coin();
    std::vector<std::string> all;
    osmium::memory::Buffer buf{1024UL * 1024UL, osmium::memory::Buffer::auto_grow::no};
    build_objects(buf, r, xml_only, all);
    uint64_t hsh = 0xcbf29ce484222325ULL;
    for (const auto& s : all) { hsh = vh::hash_str(s, hsh); hsh = vh::hash_u64(s.size(), hsh); }
    vh::distinct(hsh);
    vh::set_case_desc("writer case with %zu strings, first hex=%s", all.size(), vh::hexdump(all.empty() ? "" : all[0], 100).c_str());
    vh::count("writer_strings", all.size());

    auto clone = [&] {
        osmium::memory::Buffer b{1024UL * 1024UL, osmium::memory::Buffer::auto_grow::no};
        b.add_buffer(buf);
        b.commit();
        return b;
    };

    // ---- OPL: real output block, real line parser
    {
        bool fl = false;
        for (const auto& s : all) if (opl_check(s, nullptr)) fl = true;
        iod::opl_output_options opts;
        opts.add_metadata = osmium::metadata_options{"all"};
        std::string out;
        bool wrote = true;
        try {
            out = iod::OPLOutputBlock{clone(), opts}();
        } catch (const std::exception& e) {
            wrote = false;
            if (!fl) vh::violation("OPL output block throws for strings the escaping function accepts", e.what());
            else vh::count("writer_failures_explained_by_function_level");
        }
        if (wrote) {
            osmium::memory::Buffer back{1024UL * 1024UL, osmium::memory::Buffer::auto_grow::yes};
            bool parsed = true;
            size_t pos = 0;
            uint64_t line = 0;
            std::string perr;
            while (pos < out.size()) {
                size_t nl = out.find('\n', pos);
                if (nl == std::string::npos) nl = out.size();
                const std::string l = out.substr(pos, nl - pos);
                pos = nl + 1;
                try {
                    iod::opl_parse_line(++line, l.c_str(), back);
                } catch (const std::exception& e) {
                    parsed = false;
                    perr = e.what();
                    back.rollback();
                }
            }
            if (!parsed && !fl) vh::violation("OPL output block -> opl_parse_line: output of the writer is rejected by the parser", perr + "; output: " + out.substr(0, 1200));
            else if (!parsed) vh::count("writer_failures_explained_by_function_level");
            else compare_sites("OPL output block -> opl_parse_line", collect(buf, false, false), collect(back, false, false), fl, out);
            vh::count("writer_opl_blocks");
            vh::evaluated();
        }
    }

    // ---- XML: real output block, expat
    if (xml_only) {
        bool fl = false;
        for (const auto& s : all) if (xml_check(s, nullptr)) fl = true;
        iod::xml_output_options opts;
        opts.add_metadata = osmium::metadata_options{"all"};
        std::string out = iod::XMLOutputBlock{clone(), opts}();
        std::string doc = XML_DECL;
        doc += "<osm>\n" + out + "</osm>\n";
        std::vector<Site> got;
        std::string text, err;
        bool in_text = false;
        Xml& x = xml();
        auto attr = [](const char** a, const char* name) -> std::string {
            for (; a && a[0]; a += 2) if (std::strcmp(a[0], name) == 0) return a[1];
            return "";
        };
        x.on_start = [&](const char* n, const char** a) {
            const std::string e = n;
            if (e == "node" || e == "way" || e == "relation" || e == "changeset") got.push_back({e + " user", attr(a, "user")});
            else if (e == "tag") { got.push_back({"tag key", attr(a, "k")}); got.push_back({"tag value", attr(a, "v")}); }
            else if (e == "member") got.push_back({"member role", attr(a, "role")});
            else if (e == "comment") got.push_back({"comment user", attr(a, "user")});
            else if (e == "text") { in_text = true; text.clear(); }
        };
        x.on_end = [&](const char* n) { if (std::strcmp(n, "text") == 0) { in_text = false; got.push_back({"comment text", text}); } };
        x.on_text = [&](const char* t, int len) { if (in_text) text.append(t, static_cast<size_t>(len)); };
        if (!x.parse(doc, err)) {
            if (!fl) vh::violation("XML output block -> expat: output of the writer is rejected by the parser", err + "; output: " + out.substr(0, 1200));
            else vh::count("writer_failures_explained_by_function_level");
        } else {
            compare_sites("XML output block -> expat", collect(buf, true, true), got, fl, out);
        }
        vh::count("writer_xml_blocks");
        vh::evaluated();
        // ---- the same document through the library's own XML reader (the parser that has to
        // undo the writer's escaping; expat above only tells whether the *document* is right)
        if (!fl) {
            const std::string odoc = std::string(XML_DECL) + "<osm version=\"0.6\" generator=\"c14\">\n" + out + "</osm>\n";
            osmium::memory::Buffer back{1024UL * 1024UL, osmium::memory::Buffer::auto_grow::yes};
            std::string rerr;
            try {
                static osmium::thread::Pool pool{1, 4};
                osmium::io::Reader reader{osmium::io::File{odoc.data(), odoc.size(), "osm"}, pool, osmium::osm_entity_bits::all};
                while (osmium::memory::Buffer b = reader.read()) { back.add_buffer(b); back.commit(); }
                reader.close();
            } catch (const std::exception& e) { rerr = e.what(); }
            if (!rerr.empty()) vh::violation("XML output block -> XML reader: output of the writer is rejected by the library's XML parser", rerr + "; output: " + out.substr(0, 1200));
            else compare_sites("XML output block -> XML reader", collect(buf, true, true), collect(back, true, true), fl, out);
            vh::count("writer_xml_blocks_through_the_xml_reader");
        }
    }
    if (idx == 2) vh::sample_str(vh::fmt("writer case: %zu random strings as users, tag keys/values, roles, comment user/text of node+way+relation+changeset", all.size()));
}

} // namespace

#ifdef C14_THROW_INTERCEPT
extern "C" void __cxa_throw(void* thrown, void* tinfo, void (*dest)(void*)) {
    if (g_throw_armed) {
        g_throw_armed = 0;
        ++g_intercepted;
        if (dest) dest(thrown);
        abi::__cxa_free_exception(thrown);
        siglongjmp(g_tjb, 1);
    }
    using fn_t = void (*)(void*, void*, void (*)(void*));
    static const fn_t real = reinterpret_cast<fn_t>(dlsym(RTLD_NEXT, "__cxa_throw"));
    if (!real) std::abort();
    real(thrown, tinfo, dest);
    __builtin_unreachable();
}
#endif

int main(int argc, char** argv) {
    vh::parse_args(argc, argv);
    const std::string mode = vh::arg("mode", "cp");
    const uint64_t K = alphabet().size();
    if (mode == "cp") return vh::run_cases(argc, argv, 0x110000 / 256, case_cp);
    if (mode == "seq") return vh::run_cases(argc, argv, K * K + 1, case_seq);
    if (mode == "rand") return vh::run_cases(argc, argv, 40000, case_rand);
    if (mode == "bytes") return vh::run_cases(argc, argv, 65536, case_bytes);
    if (mode == "bytesb") return vh::run_cases(argc, argv, N_BOUNDARY_BLOCKS, case_bytes_boundary);
    if (mode == "inj") return vh::run_cases(argc, argv, 2, case_inj);
    if (mode == "writer") return vh::run_cases(argc, argv, 3000, case_writer);
    std::fprintf(stderr, "unknown --mode %s\n", mode.c_str());
    return 2;
}
