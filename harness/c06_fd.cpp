// C06 (fd part) - chunking independence through the *real* plain/gzip/bzip2 fd
// decompressors and the PBF fd path. Built with a small
// OSMIUM_VERIF_INPUT_BUFFER_SIZE (hook H3) so that the decompressors deliver
// small pieces, and linked with -Wl,--wrap=read so that every read(2) issued
// by the (header-only) library returns a short count.
// Oracle: the same bytes read from a memory buffer (no fd, other chunking).

#include "io_util.hpp"

#include <osmium/io/any_compression.hpp>

#include <dirent.h>

namespace {
std::atomic<uint64_t> g_short_limit{0};
std::atomic<uint64_t> g_short_reads{0};
std::atomic<uint64_t> g_lcg{88172645463325252ULL};
}

extern "C" ssize_t __real_read(int fd, void* buf, size_t n);
extern "C" ssize_t __wrap_read(int fd, void* buf, size_t n) {
    const uint64_t lim = g_short_limit.load(std::memory_order_relaxed);
    if (lim && n > 1) {
        uint64_t x = g_lcg.load(std::memory_order_relaxed);
        x ^= x << 13; x ^= x >> 7; x ^= x << 17;
        g_lcg.store(x, std::memory_order_relaxed);
        const size_t m = 1 + static_cast<size_t>(x % lim);
        if (m < n) { n = m; g_short_reads.fetch_add(1, std::memory_order_relaxed); }
    }
    return __real_read(fd, buf, n);
}

namespace {

osmium::thread::Pool* g_pool = nullptr;
std::string g_dir;

std::string compare(const iou::ReadResult& a, const iou::ReadResult& b, bool compare_errors, std::string* detail) {
    if (a.ok != b.ok) { *detail = a.ok ? ("memory: ok, fd: " + b.error_type + ": " + b.error) : ("memory: " + a.error_type + ": " + a.error + ", fd: ok"); return a.ok ? "valid from memory, error from fd with short reads" : "error from memory, accepted from fd with short reads"; }
    if (!a.ok) {
        if (!compare_errors) return "";
        if (a.error_type != b.error_type) { *detail = a.error_type + " vs " + b.error_type + " (" + a.error + " / " + b.error + ")"; return "different error type"; }
        if (a.error != b.error) { *detail = a.error + " / " + b.error; return "different error message"; }
        return "";
    }
    if (a.header.generator != b.header.generator || a.header.boxes.size() != b.header.boxes.size()) { *detail = "generator/boxes"; return "header differs"; }
    if (a.objs.size() != b.objs.size()) { *detail = vh::fmt("%zu vs %zu objects", a.objs.size(), b.objs.size()); return "object count differs"; }
    for (size_t i = 0; i < a.objs.size(); ++i) {
        std::string d;
        const std::string f = mdl::diff(a.objs[i], b.objs[i], &d);
        if (!f.empty()) { *detail = vh::fmt("object %zu: ", i) + d; return "object content differs (" + f + ")"; }
    }
    return "";
}

std::string gz(const std::string& in) {
    z_stream zs{};
    deflateInit2(&zs, 6, Z_DEFLATED, 15 + 16, 8, Z_DEFAULT_STRATEGY);
    std::string out(compressBound(in.size()) + 64, '\0');
    zs.next_in = reinterpret_cast<Bytef*>(const_cast<char*>(in.data())); zs.avail_in = static_cast<uInt>(in.size());
    zs.next_out = reinterpret_cast<Bytef*>(&out[0]); zs.avail_out = static_cast<uInt>(out.size());
    deflate(&zs, Z_FINISH);
    out.resize(zs.total_out);
    deflateEnd(&zs);
    return out;
}
std::string bz(const std::string& in) {
    unsigned int n = static_cast<unsigned int>(in.size() + in.size() / 50 + 700);
    std::string out(n, '\0');
    BZ2_bzBuffToBuffCompress(&out[0], &n, const_cast<char*>(in.data()), static_cast<unsigned int>(in.size()), 9, 0, 0);
    out.resize(n);
    return out;
}

void case_fd(uint64_t idx, vh::Rng& rng) {
    struct F { const char* fmt; mdl::Charset cs; bool changesets; };
    static const F fmts[] = {{"osm", mdl::Charset::xml_safe, true}, {"osc", mdl::Charset::xml_safe, false}, {"pbf", mdl::Charset::any_utf8, false},
                             {"osh.pbf", mdl::Charset::any_utf8, false}, {"opl", mdl::Charset::any_utf8, true}, {"o5m", mdl::Charset::any_utf8, false}};
    const F& f = fmts[idx % 6];
    const bool is_o5m = std::string(f.fmt) == "o5m";
    const int comp = is_o5m ? 0 : static_cast<int>(rng.below(3));
    const std::string suffix = comp == 1 ? ".gz" : comp == 2 ? ".bz2" : "";
    const std::string path = g_dir + "/f";
    std::string bytes, plain;
    bool have_plain = false;
    std::string what;
    if (is_o5m) {
        // fixtures
        static std::vector<std::string> names;
        const std::string sdir = vh::arg("seeds", "/verif/seeds/o5m");
        if (names.empty()) {
            if (DIR* d = ::opendir(sdir.c_str())) { while (auto* e = ::readdir(d)) if (e->d_name[0] != '.') names.push_back(e->d_name); ::closedir(d); }
            std::sort(names.begin(), names.end());
        }
        if (names.empty()) return;
        const std::string n = rng.pick(names);
        bytes = iou::slurp(sdir + "/" + n);
        what = "fixture " + n;
    } else {
        mdl::GenOpts go;
        go.charset = f.cs; go.allow_changesets = f.changesets; go.allow_discussions = std::string(f.fmt) == "osm"; go.changeset_u32_max = false;
        go.valid_locations_only = true; go.history = std::string(f.fmt) != "osm" && std::string(f.fmt) != "pbf";
        if (rng.coin()) { go.max_string = 30; }
        const std::vector<mdl::Obj> D = mdl::gen_dataset(rng, go, rng.pick(std::vector<size_t>{1, 5, 60, 600}));
        const mdl::Header H = mdl::gen_header(rng, f.cs);
        const std::string popt = rng.coin() ? ",pbf_compression=none" : "";
        auto write = [&](const std::string& sfx) {
            osmium::io::File file{path, std::string(f.fmt) + sfx + popt};
            osmium::io::Writer writer{file, iou::model_to_header(H), osmium::io::overwrite::allow, *g_pool};
            osmium::memory::Buffer buf{64 * 1024, osmium::memory::Buffer::auto_grow::yes};
            for (const auto& o : D) mdl::to_buffer(o, buf);
            writer(std::move(buf));
            writer.close();
            return iou::slurp(path);
        };
        what = vh::fmt("%zu objects as %s%s", D.size(), f.fmt, suffix.c_str());
        if (comp != 0 && rng.coin()) {
            // The same byte stream as several gzip members / bzip2 streams, also empty ones (first,
            // in the middle, last): the decompressor then hands the parser pieces that end at the
            // member boundaries (and possibly empty pieces). Oracle below: the uncompressed bytes.
            plain = write("");
            const size_t nmembers = 2 + rng.below(4);
            std::vector<size_t> cuts{0, plain.size()};
            for (size_t k = 1; k < nmembers; ++k) cuts.push_back(rng.chance(1, 3) ? rng.pick(cuts) : rng.below(plain.size() + 1));
            std::sort(cuts.begin(), cuts.end());
            size_t empties = 0;
            for (size_t k = 0; k + 1 < cuts.size(); ++k) {
                const std::string piece = plain.substr(cuts[k], cuts[k + 1] - cuts[k]);
                if (piece.empty()) ++empties;
                bytes += comp == 1 ? gz(piece) : bz(piece);
            }
            have_plain = true;
            what += vh::fmt(" in %zu members (%zu empty)", cuts.size() - 1, empties);
            vh::count("multi_member_files");
            if (empties) vh::count("multi_member_files_with_empty_members");
        } else {
            bytes = write(suffix);
        }
    }
    // truncation only for uncompressed files (error texts of the fd and buffer decompressors differ by design)
    bool truncated = false;
    if (comp == 0 && rng.chance(1, 3) && bytes.size() > 2) { bytes.resize(1 + rng.below(bytes.size() - 1)); truncated = true; }
    iou::spit(path, bytes);
    const std::string fmt = std::string(f.fmt) + suffix;
    vh::set_case_desc("fd %s %s%s (%zu bytes)", fmt.c_str(), what.c_str(), truncated ? " truncated" : "", bytes.size());

    g_short_limit = 0;
    iou::ReadResult a;
    { osmium::io::File mf{bytes.data(), bytes.size(), fmt}; a = iou::read_all(mf, osmium::osm_entity_bits::all, *g_pool); }
    if (have_plain) {
        // multi-member file: the buffer decompressor's run is judged against the uncompressed bytes
        iou::ReadResult p;
        { osmium::io::File pf{plain.data(), plain.size(), f.fmt}; p = iou::read_all(pf, osmium::osm_entity_bits::all, *g_pool); }
        std::string detail;
        std::string d = compare(p, a, false, &detail);
        auto relabel = [](std::string& t) {
            for (const auto& r : {std::pair<std::string, std::string>{"fd with short reads", "the multi-member buffer"}, {"memory", "the uncompressed bytes"}, {"fd", "multi-member buffer"}})
                for (size_t pos = t.find(r.first); pos != std::string::npos; pos = t.find(r.first, pos + r.second.size())) t.replace(pos, r.first.size(), r.second);
        };
        relabel(d); relabel(detail);
        if (!d.empty()) vh::violation(std::string(f.fmt) + (comp == 1 ? " (gzip buffer, several members)" : " (bzip2 buffer, several streams)") + ": " + d, what + ": " + detail);
        vh::count("multi_member_buffer_runs");
    }
    // The memory path and the fd path are different code paths with their own
    // error texts (e.g. PBF "truncated data" vs "unexpected EOF"): across the
    // two paths only success/failure, the error type and the data are compared.
    // Among the fd runs (same path, different chunkings) the error message
    // must be identical too.
    iou::ReadResult first_fd;
    bool have_first = false;
    for (uint64_t lim : {uint64_t{4096}, uint64_t{7}, uint64_t{1}}) {
        g_short_limit = lim;
        iou::ReadResult b;
        { osmium::io::File ff{path, fmt}; b = iou::read_all(ff, osmium::osm_entity_bits::all, *g_pool); }
        g_short_limit = 0;
        std::string detail;
        std::string d = compare(a, b, false, &detail);
        if (d.empty() && !a.ok && a.error_type != b.error_type) { d = "different error type"; detail = a.error_type + " vs " + b.error_type + " (" + a.error + " / " + b.error + ")"; }
        if (d.empty() && have_first) d = compare(first_fd, b, true, &detail);
        if (!have_first) { first_fd = b; have_first = true; }
        if (!d.empty()) vh::violation(std::string(f.fmt) + (comp == 1 ? " (gzip fd)" : comp == 2 ? " (bzip2 fd)" : " (plain fd)") + (truncated ? " (truncated file)" : "") + ": " + d,
                                      what + vh::fmt(", short reads <= %" PRIu64 ", input_buffer_size %u: ", lim, static_cast<unsigned>(osmium::io::Decompressor::input_buffer_size)) + detail);
        vh::count("fd_runs");
    }
    ::unlink(path.c_str());
    vh::evaluated(3);
    vh::distinct(vh::hash_str(bytes, vh::hash_str(fmt)));
    vh::cover("fd_format", fmt + (truncated ? " truncated" : ""));
    if (idx % 200 == 0) vh::sample_str(what + vh::fmt(" (%zu bytes%s): memory vs fd with read() limited to 1, 7, 4096 bytes", bytes.size(), truncated ? ", truncated" : ""));
}

} // namespace

int main(int argc, char** argv) {
    vh::parse_args(argc, argv);
    g_pool = new osmium::thread::Pool{2, 20};
    g_dir = iou::scratch_dir("c06fd");
    const int rc = vh::run_cases(argc, argv, 150, case_fd, [] { vh::count("short_reads", g_short_reads.load()); });
    ::rmdir(g_dir.c_str());
    return rc;
}
