// C03 - malformed or hostile input never causes memory errors, aborts or hangs.
//
// Deterministic sweeps and structure-aware mutations, run under gcc ASan+UBSan
// with and without NDEBUG (both build modes are in the property's quantifier).
// Every input goes through the real Reader (memory buffer input); everything
// that is delivered is traversed completely on exact-fit copies (traverse.hpp).
// Accepted outcomes: objects delivered, or an exception derived from
// std::exception. Violations: sanitizer report, fatal signal, abort/assert,
// other exception types, hang, structural problem found by the buffer walk.
//
// modes: prefix (every truncation), subst (single-byte substitutions at every
// offset), evil (crafted slot mutations), smart (seeded structure-aware
// mutations incl. re-framed PBF and re-compressed gzip/bzip2), file (replay of
// fuzzer artifacts / corpus files listed in --list).

#include "io_util.hpp"
#include "pb.hpp"
#include "traverse.hpp"
#include "../c02_enc_o5m.hpp"

#include <bzlib.h>
#include <dirent.h>

namespace {

osmium::thread::Pool* g_pool = nullptr;
trv::Stats g_stats;
uint64_t n_ok = 0, n_rejected = 0;

// returns a short outcome class (for coverage), reports violations itself
void run_input(const std::string& bytes, const std::string& fmt, const std::string& input_class) {
    // exact-size heap copy of the input: reads past the end of the input are visible to ASan
    char* exact = static_cast<char*>(std::malloc(bytes.size() ? bytes.size() : 1));
    std::memcpy(exact, bytes.data(), bytes.size());
    try {
        osmium::io::File file{exact, bytes.size(), fmt};
        osmium::io::Reader reader{file, osmium::osm_entity_bits::all, *g_pool};
        (void)reader.header();
        while (osmium::memory::Buffer buffer = reader.read()) {
            const std::string problem = trv::traverse_buffer(buffer, g_stats);
            if (!problem.empty()) vh::violation(problem + ": " + fmt, input_class);
            vh::heartbeat();
        }
        reader.close();
        ++n_ok;
    } catch (const std::exception&) {
        ++n_rejected;
    } catch (...) {
        vh::violation("exception not derived from std::exception: " + fmt, input_class);
    }
    std::free(exact);
}

// ------------------------------------------------------------------ seeds

struct Seed { std::string fmt; std::string name; std::string bytes; };
std::vector<Seed> g_seeds;

std::string gz(const std::string& in) {
    z_stream zs{};
    deflateInit2(&zs, 6, Z_DEFLATED, 15 + 16, 8, Z_DEFAULT_STRATEGY);
    std::string out(compressBound(in.size()) + 64, '\0');
    zs.next_in = reinterpret_cast<Bytef*>(const_cast<char*>(in.data())); zs.avail_in = static_cast<uInt>(in.size());
    zs.next_out = reinterpret_cast<Bytef*>(&out[0]); zs.avail_out = static_cast<uInt>(out.size());
    deflate(&zs, Z_FINISH);
    out.resize(zs.total_out);
    deflateEnd(&zs);
    return out;
}
std::string bz(const std::string& in) {
    unsigned int n = static_cast<unsigned int>(in.size() + in.size() / 50 + 700);
    std::string out(n, '\0');
    BZ2_bzBuffToBuffCompress(&out[0], &n, const_cast<char*>(in.data()), static_cast<unsigned int>(in.size()), 9, 0, 0);
    out.resize(n);
    return out;
}

void build_seeds(uint64_t seed) {
    const std::string dir = iou::scratch_dir("c03");
    vh::Rng rng{seed, 0x5EED5};
    auto write = [&](const char* opts, const std::vector<mdl::Obj>& D, const mdl::Header& H) {
        const std::string path = dir + "/seed";
        ::unlink(path.c_str());
        {
            osmium::io::File file{path, opts};
            osmium::io::Writer writer{file, iou::model_to_header(H), osmium::io::overwrite::allow, *g_pool};
            osmium::memory::Buffer buf{64 * 1024, osmium::memory::Buffer::auto_grow::yes};
            for (const auto& o : D) mdl::to_buffer(o, buf);
            writer(std::move(buf));
            writer.close();
        }
        std::string b = iou::slurp(path);
        ::unlink(path.c_str());
        return b;
    };
    struct F { const char* fmt; const char* opts; mdl::Charset cs; bool cs_ok; bool disc; bool hist; };
    const F fs[] = {{"osm", "osm", mdl::Charset::xml_safe, true, true, false}, {"osc", "osc", mdl::Charset::xml_safe, false, false, true},
                    {"pbf", "pbf,pbf_compression=none", mdl::Charset::any_utf8, false, false, false}, {"pbf", "pbf", mdl::Charset::any_utf8, false, false, false},
                    {"pbf", "osh.pbf,pbf_dense_nodes=false,pbf_compression=none,locations_on_ways=true", mdl::Charset::any_utf8, false, false, true},
                    {"opl", "opl", mdl::Charset::any_utf8, true, false, true}};
    for (const auto& f : fs) {
        for (int size = 0; size < 2; ++size) {
            mdl::GenOpts go;
            go.charset = f.cs; go.allow_changesets = f.cs_ok; go.allow_discussions = f.disc; go.history = f.hist; go.changeset_u32_max = false;
            go.valid_locations_only = true; go.max_string = size ? 40 : 8; go.max_tags = size ? 4 : 2; go.max_nodes = 4; go.max_members = 3;
            auto D = mdl::gen_dataset(rng, go, size ? 25 : 4);
            if (size && !f.cs_ok) {
                // a relation with many members and long roles, a way with many nodes, an object with many tags:
                // with small parser buffers the buffer has to grow inside every kind of sub-builder call
                mdl::Obj r = mdl::gen_object(rng, go, mdl::RELATION);
                r.members.clear();
                for (int m = 0; m < 40; ++m) r.members.push_back(mdl::Member{1 + m % 3, 1000 + m, std::string(static_cast<size_t>(5 + (m * 37) % 200), 'r')});
                D.push_back(r);
                mdl::Obj w = mdl::gen_object(rng, go, mdl::WAY);
                w.nodes.clear();
                for (int n = 0; n < 300; ++n) w.nodes.push_back(mdl::NodeRef{5000 + n, mdl::UNDEF, mdl::UNDEF});
                D.push_back(w);
                mdl::Obj t = mdl::gen_object(rng, go, mdl::NODE);
                t.tags.clear();
                for (int k = 0; k < 60; ++k) t.tags.push_back(mdl::Tag{"key" + std::to_string(k), std::string(static_cast<size_t>(1 + (k * 13) % 90), 'v')});
                D.push_back(t);
            }
            mdl::Header H = mdl::gen_header(rng, f.cs);
            if (H.generator.size() > 20) H.generator = "gen";
            g_seeds.push_back(Seed{f.fmt, std::string(f.opts) + (size ? " medium" : " tiny"), write(f.opts, D, H)});
        }
    }
    // o5m / o5c from the spec encoder
    for (int o5c = 0; o5c < 2; ++o5c) {
        mdl::GenOpts go; go.max_string = 12; go.max_tags = 3; go.valid_locations_only = true; go.changeset_u32_max = false; go.history = o5c;
        auto D = mdl::gen_dataset(rng, go, 12);
        c02::fit_o5m(D, o5c);
        c02::O5mCfg cfg; cfg.o5c = o5c;
        c02::O5mEncoder enc{rng, cfg};
        mdl::Header H; H.generator = "g";
        g_seeds.push_back(Seed{o5c ? "o5c" : "o5m", o5c ? "o5c encoder" : "o5m encoder", enc.encode(D, H).bytes});
    }
    const std::string sdir = vh::arg("seeds", "/verif/seeds/o5m");
    if (DIR* d = ::opendir(sdir.c_str())) {
        std::vector<std::string> names;
        while (auto* e = ::readdir(d)) if (e->d_name[0] != '.') names.push_back(e->d_name);
        ::closedir(d);
        std::sort(names.begin(), names.end());
        for (const auto& n : names) g_seeds.push_back(Seed{"o5m", "fixture " + n, iou::slurp(sdir + "/" + n)});
    }
    // compressed wrappers of the tiny text seeds
    const size_t base = g_seeds.size();
    for (size_t i = 0; i < base; ++i) {
        if (g_seeds[i].name.find("tiny") == std::string::npos) continue;
        g_seeds.push_back(Seed{g_seeds[i].fmt + ".gz", g_seeds[i].name + " gzip", gz(g_seeds[i].bytes)});
        g_seeds.push_back(Seed{g_seeds[i].fmt + ".bz2", g_seeds[i].name + " bzip2", bz(g_seeds[i].bytes)});
    }
    ::rmdir(dir.c_str());
}

// ------------------------------------------------------------------ sweeps

constexpr size_t PREFIX_BLOCK = 64, SUBST_BLOCK = 24;

uint64_t prefix_cases() { uint64_t t = 0; for (auto& s : g_seeds) t += (std::min<size_t>(s.bytes.size(), 6000) + PREFIX_BLOCK - 1) / PREFIX_BLOCK; return t; }
uint64_t subst_cases() { uint64_t t = 0; for (auto& s : g_seeds) if (s.bytes.size() <= 4096) t += (s.bytes.size() + SUBST_BLOCK - 1) / SUBST_BLOCK; return t; }

void case_prefix(uint64_t idx, vh::Rng&) {
    uint64_t acc = 0;
    for (auto& s : g_seeds) {
        const size_t n = std::min<size_t>(s.bytes.size(), 6000);
        const uint64_t blocks = (n + PREFIX_BLOCK - 1) / PREFIX_BLOCK;
        if (idx < acc + blocks) {
            const size_t lo = static_cast<size_t>(idx - acc) * PREFIX_BLOCK, hi = std::min(n, lo + PREFIX_BLOCK);
            for (size_t len = lo; len < hi; ++len) {
                vh::set_case_desc("prefix %s of '%s' cut at %zu of %zu", s.fmt.c_str(), s.name.c_str(), len, s.bytes.size());
                run_input(s.bytes.substr(0, len), s.fmt, "truncated " + s.name);
            }
            vh::evaluated(hi - lo);
            vh::count("distinct_by_construction", hi - lo);
            vh::count("prefix_inputs", hi - lo);
            vh::cover("format", s.fmt);
            if (lo == 0) vh::sample_str(vh::fmt("every prefix of '%s' (%s, %zu bytes)", s.name.c_str(), s.fmt.c_str(), s.bytes.size()));
            return;
        }
        acc += blocks;
    }
}

void case_subst(uint64_t idx, vh::Rng&) {
    uint64_t acc = 0;
    for (auto& s : g_seeds) {
        if (s.bytes.size() > 4096) continue;
        const uint64_t blocks = (s.bytes.size() + SUBST_BLOCK - 1) / SUBST_BLOCK;
        if (idx < acc + blocks) {
            const size_t lo = static_cast<size_t>(idx - acc) * SUBST_BLOCK, hi = std::min(s.bytes.size(), lo + SUBST_BLOCK);
            uint64_t n = 0;
            for (size_t off = lo; off < hi; ++off) {
                const unsigned char b = static_cast<unsigned char>(s.bytes[off]);
                for (unsigned char v : {static_cast<unsigned char>(0x00), static_cast<unsigned char>(0x7f), static_cast<unsigned char>(0x80), static_cast<unsigned char>(0xff),
                                        static_cast<unsigned char>(b + 1), static_cast<unsigned char>(b - 1)}) {
                    if (v == b) continue;
                    std::string m = s.bytes;
                    m[off] = static_cast<char>(v);
                    vh::set_case_desc("subst %s '%s' offset %zu: 0x%02x -> 0x%02x", s.fmt.c_str(), s.name.c_str(), off, b, v);
                    run_input(m, s.fmt, "single byte substituted in " + s.name);
                    ++n;
                }
            }
            vh::evaluated(n);
            vh::count("distinct_by_construction", n);
            vh::count("substitution_inputs", n);
            return;
        }
        acc += blocks;
    }
}

// ------------------------------------------------------------------ crafted ("evil") inputs

std::string pbf_frame(const std::string& type, const std::string& raw, int comp = 0) {
    std::string blob;
    if (comp == 0) pb::put_bytes_field(blob, 1, raw);
    else { pb::put_int_field(blob, 2, static_cast<int64_t>(raw.size())); pb::put_bytes_field(blob, 3, pb::zlib_deflate(raw)); }
    std::string hdr;
    pb::put_bytes_field(hdr, 1, type);
    pb::put_int_field(hdr, 3, static_cast<int64_t>(blob.size()));
    std::string out;
    const uint32_t n = static_cast<uint32_t>(hdr.size());
    out += static_cast<char>(n >> 24); out += static_cast<char>(n >> 16); out += static_cast<char>(n >> 8); out += static_cast<char>(n);
    return out + hdr + blob;
}
std::string pbf_header_blob() {
    std::string h;
    pb::put_bytes_field(h, 4, "OsmSchema-V0.6");
    pb::put_bytes_field(h, 4, "DenseNodes");
    pb::put_bytes_field(h, 16, "evil");
    return pbf_frame("OSMHeader", h);
}
std::string packed(const std::vector<uint64_t>& v) { std::string s; for (auto x : v) pb::put_varint(s, x); return s; }
std::string packed_s(const std::vector<int64_t>& v) { std::string s; for (auto x : v) pb::put_varint(s, pb::zigzag(x)); return s; }

#define LIT(lit) std::string(lit, sizeof(lit) - 1)

struct Evil { std::string fmt, cls, bytes; };
std::vector<Evil> g_evil;

void build_evil() {
    const size_t lens[] = {0, 1, 255, 256, 1023, 1024, 1025, 65533, 65534, 65535, 65536, 70000};
    // ---- PBF: string slots (user, key, value, role) of special lengths / with embedded NUL
    auto pbf_with = [&](const std::vector<std::string>& strings, int variant) {
        std::string st;
        for (const auto& s : strings) pb::put_bytes_field(st, 1, s);
        std::string group;
        if (variant == 0) {            // plain node: keys [1] vals [2], user_sid 3
            std::string node; pb::put_sint_field(node, 1, 17);
            pb::put_bytes_field(node, 2, packed({1})); pb::put_bytes_field(node, 3, packed({2}));
            std::string info; pb::put_int_field(info, 1, 1); pb::put_int_field(info, 2, 1000); pb::put_int_field(info, 3, 5); pb::put_int_field(info, 4, 6); pb::put_varint_field(info, 5, 3);
            pb::put_bytes_field(node, 4, info); pb::put_sint_field(node, 8, 100); pb::put_sint_field(node, 9, 200);
            pb::put_bytes_field(group, 1, node);
        } else if (variant == 1) {     // dense node
            std::string dn; pb::put_bytes_field(dn, 1, packed_s({17}));
            std::string di; pb::put_bytes_field(di, 1, packed({1})); pb::put_bytes_field(di, 2, packed_s({1000})); pb::put_bytes_field(di, 3, packed_s({5})); pb::put_bytes_field(di, 4, packed_s({6})); pb::put_bytes_field(di, 5, packed_s({3}));
            pb::put_bytes_field(dn, 5, di); pb::put_bytes_field(dn, 8, packed_s({100})); pb::put_bytes_field(dn, 9, packed_s({200}));
            pb::put_bytes_field(dn, 10, packed({1, 2, 0}));
            pb::put_bytes_field(group, 2, dn);
        } else if (variant == 2) {     // way
            std::string way; pb::put_int_field(way, 1, 17); pb::put_bytes_field(way, 2, packed({1})); pb::put_bytes_field(way, 3, packed({2}));
            std::string info; pb::put_int_field(info, 1, 1); pb::put_varint_field(info, 5, 3); pb::put_bytes_field(way, 4, info);
            pb::put_bytes_field(way, 8, packed_s({1, 1, 1}));
            pb::put_bytes_field(group, 3, way);
        } else {                       // relation: role = string 1
            std::string rel; pb::put_int_field(rel, 1, 17); pb::put_bytes_field(rel, 2, packed({2})); pb::put_bytes_field(rel, 3, packed({2}));
            std::string info; pb::put_int_field(info, 1, 1); pb::put_varint_field(info, 5, 3); pb::put_bytes_field(rel, 4, info);
            pb::put_bytes_field(rel, 8, packed({1, 1})); pb::put_bytes_field(rel, 9, packed_s({5, 1})); pb::put_bytes_field(rel, 10, packed({0, 1}));
            pb::put_bytes_field(group, 4, rel);
        }
        std::string block; pb::put_bytes_field(block, 1, st); pb::put_bytes_field(block, 2, group);
        return pbf_header_blob() + pbf_frame("OSMData", block, 1);
    };
    static const char* VN[] = {"plain node", "dense node", "way", "relation"};
    for (int variant = 0; variant < 4; ++variant) {
        for (int slot = 1; slot <= 3; ++slot) {
            static const char* SN[] = {"", "key/role", "value", "user"};
            for (size_t len : lens) {
                std::vector<std::string> strings = {"", "k", "v", "u"};
                strings[static_cast<size_t>(slot)] = std::string(len, 'x');
                g_evil.push_back(Evil{"pbf", vh::fmt("PBF %s: %s string of %zu bytes", VN[variant], SN[slot], len), pbf_with(strings, variant)});
            }
            for (const std::string& nul : {LIT("a\0b"), LIT("\0"), LIT("ab\0"), LIT("\0\0\0")}) {
                std::vector<std::string> strings = {"", "k", "v", "u"};
                strings[static_cast<size_t>(slot)] = nul;
                g_evil.push_back(Evil{"pbf", vh::fmt("PBF %s: %s string with an embedded NUL", VN[variant], SN[slot]), pbf_with(strings, variant)});
            }
        }
        // string ids out of range / string table too short
        g_evil.push_back(Evil{"pbf", vh::fmt("PBF %s: string id beyond the string table", VN[variant]), pbf_with({"", "k"}, variant)});
        g_evil.push_back(Evil{"pbf", vh::fmt("PBF %s: empty string table", VN[variant]), pbf_with({}, variant)});
    }
    // count mismatches in packed arrays
    {
        std::string st; for (const char* s : {"", "k", "v", "u"}) pb::put_bytes_field(st, 1, s);
        auto block_with = [&](const std::string& group) { std::string block; pb::put_bytes_field(block, 1, st); pb::put_bytes_field(block, 2, group); return pbf_header_blob() + pbf_frame("OSMData", block); };
        { std::string n; pb::put_sint_field(n, 1, 1); pb::put_bytes_field(n, 2, packed({1, 1, 1})); pb::put_bytes_field(n, 3, packed({2})); pb::put_sint_field(n, 8, 1); pb::put_sint_field(n, 9, 1); std::string g; pb::put_bytes_field(g, 1, n);
          g_evil.push_back(Evil{"pbf", "PBF node: more keys than values", block_with(g)}); }
        { std::string dn; pb::put_bytes_field(dn, 1, packed_s({1, 1, 1})); pb::put_bytes_field(dn, 8, packed_s({1})); pb::put_bytes_field(dn, 9, packed_s({1, 1, 1})); pb::put_bytes_field(dn, 10, packed({1, 2, 0, 1})); std::string g; pb::put_bytes_field(g, 2, dn);
          g_evil.push_back(Evil{"pbf", "PBF dense nodes: array lengths differ, keys_vals odd", block_with(g)}); }
        { std::string w; pb::put_int_field(w, 1, 1); pb::put_bytes_field(w, 8, packed_s({1, 1})); pb::put_bytes_field(w, 9, packed_s({1})); pb::put_bytes_field(w, 10, packed_s({1, 1, 1})); std::string g; pb::put_bytes_field(g, 3, w);
          g_evil.push_back(Evil{"pbf", "PBF way: refs/lat/lon array lengths differ", block_with(g)}); }
        { std::string r; pb::put_int_field(r, 1, 1); pb::put_bytes_field(r, 8, packed({1})); pb::put_bytes_field(r, 9, packed_s({1, 1, 1})); pb::put_bytes_field(r, 10, packed({0, 1, 2, 3, 7})); std::string g; pb::put_bytes_field(g, 4, r);
          g_evil.push_back(Evil{"pbf", "PBF relation: roles/memids/types lengths differ, type out of range", block_with(g)}); }
        { std::string n; pb::put_sint_field(n, 1, 1); std::string info; pb::put_int_field(info, 1, -5); pb::put_int_field(info, 2, -1); pb::put_int_field(info, 3, -7); pb::put_int_field(info, 4, -1); pb::put_varint_field(info, 5, 0xffffffffULL); pb::put_bytes_field(n, 4, info);
          pb::put_sint_field(n, 8, INT64_MAX); pb::put_sint_field(n, 9, INT64_MIN); std::string g; pb::put_bytes_field(g, 1, n);
          g_evil.push_back(Evil{"pbf", "PBF node: negative version/timestamp/changeset/uid, huge user_sid and coordinates", block_with(g)}); }
        { std::string block; pb::put_bytes_field(block, 1, st); pb::put_int_field(block, 17, 0); pb::put_int_field(block, 18, 0); std::string n; pb::put_sint_field(n, 1, 1); pb::put_sint_field(n, 8, 1); pb::put_sint_field(n, 9, 1); std::string g; pb::put_bytes_field(g, 1, n); pb::put_bytes_field(block, 2, g);
          g_evil.push_back(Evil{"pbf", "PBF block: granularity 0 and date_granularity 0", pbf_header_blob() + pbf_frame("OSMData", block)}); }
        // framing
        g_evil.push_back(Evil{"pbf", "PBF framing: BlobHeader length 0", LIT("\0\0\0\0")});
        g_evil.push_back(Evil{"pbf", "PBF framing: BlobHeader length 0xffffffff", LIT("\xff\xff\xff\xff") + "abc"});
        { std::string hdr; pb::put_bytes_field(hdr, 1, "OSMHeader"); pb::put_int_field(hdr, 3, -1); std::string o; o += LIT("\0\0\0"); o += static_cast<char>(hdr.size()); g_evil.push_back(Evil{"pbf", "PBF framing: negative datasize", o + hdr}); }
        { std::string hdr; pb::put_bytes_field(hdr, 3, ""); std::string o; o += LIT("\0\0\0"); o += static_cast<char>(hdr.size()); g_evil.push_back(Evil{"pbf", "PBF framing: BlobHeader without type", o + hdr + "xx"}); }
        { std::string blob; pb::put_int_field(blob, 2, 100000000); pb::put_bytes_field(blob, 3, pb::zlib_deflate("abc")); std::string hdr; pb::put_bytes_field(hdr, 1, "OSMHeader"); pb::put_int_field(hdr, 3, static_cast<int64_t>(blob.size())); std::string o; o += LIT("\0\0\0"); o += static_cast<char>(hdr.size());
          g_evil.push_back(Evil{"pbf", "PBF blob: raw_size far larger than the data", o + hdr + blob}); }
    }
    // ---- XML structure
    const std::string xh = "<?xml version='1.0' encoding='UTF-8'?>\n<osm version=\"0.6\" generator=\"e\">\n";
    auto xml = [&](const std::string& cls, const std::string& body) { g_evil.push_back(Evil{"osm", "XML: " + cls, xh + body + "</osm>\n"}); };
    xml("changeset discussion comment without text", "<changeset id=\"1\"><discussion><comment uid=\"1\" user=\"u\" date=\"2020-01-01T00:00:00Z\"></comment></discussion></changeset>");
    xml("changeset discussion: two comments without text", "<changeset id=\"1\"><discussion><comment uid=\"1\" user=\"u\" date=\"2020-01-01T00:00:00Z\"/><comment uid=\"2\" user=\"v\" date=\"2020-01-01T00:00:00Z\"/></discussion></changeset>");
    xml("changeset discussion: text without comment", "<changeset id=\"1\"><discussion><text>hello</text></discussion></changeset>");
    xml("changeset discussion: comment without attributes", "<changeset id=\"1\"><discussion><comment><text>t</text></comment></discussion></changeset>");
    xml("changeset discussion: empty text", "<changeset id=\"1\"><discussion><comment uid=\"1\" user=\"u\" date=\"2020-01-01T00:00:00Z\"><text></text></comment></discussion></changeset>");
    xml("changeset discussion: two texts in one comment", "<changeset id=\"1\"><discussion><comment uid=\"1\" user=\"u\" date=\"2020-01-01T00:00:00Z\"><text>a</text><text>b</text></comment></discussion></changeset>");
    xml("nested objects", "<node id=\"1\" lat=\"1\" lon=\"1\"><node id=\"2\" lat=\"1\" lon=\"1\"/></node>");
    xml("tag before nd, nd after tag", "<way id=\"1\"><tag k=\"a\" v=\"b\"/><nd ref=\"1\"/><tag k=\"c\" v=\"d\"/><nd ref=\"2\"/></way>");
    xml("member and tag interleaved", "<relation id=\"1\"><tag k=\"a\" v=\"b\"/><member type=\"node\" ref=\"1\" role=\"r\"/><tag k=\"c\" v=\"d\"/><member type=\"way\" ref=\"2\" role=\"\"/></relation>");
    xml("member with unknown type", "<relation id=\"1\"><member type=\"x\" ref=\"1\" role=\"r\"/></relation>");
    xml("member without attributes", "<relation id=\"1\"><member/></relation>");
    xml("tag without attributes", "<node id=\"1\"><tag/></node>");
    xml("object without id", "<node lat=\"1\" lon=\"1\"/><way/><relation/><changeset/>");
    // Every order of child elements under every parent: the order of the children is what opens
    // and closes the parser's sub-builders (tag list, node refs, members, discussion), so a
    // builder left open or closed twice shows only for particular orders
    // (<discussion>, <tag>, <discussion> ...). All sequences of up to 3 children out of 6 kinds
    // under each of the 4 parents, and of exactly 4 out of 4 kinds under <changeset>.
    {
        const char* const kid[] = {"<tag k=\"a\" v=\"b\"/>", "<nd ref=\"5\"/>", "<member type=\"way\" ref=\"7\" role=\"outer\"/>",
                                   "<discussion><comment uid=\"1\" user=\"u\" date=\"2020-01-01T00:00:00Z\"><text>first text</text></comment><comment uid=\"2\" user=\"someone else\" date=\"2020-01-02T00:00:00Z\"><text>second</text></comment></discussion>",
                                   "<discussion/>", "<comment uid=\"3\" user=\"w\" date=\"2020-01-03T00:00:00Z\"><text>outside</text></comment>"};
        const char* const kname[] = {"tag", "nd", "member", "discussion", "empty-discussion", "comment"};
        const char* const parent[] = {"node", "way", "relation", "changeset"};
        auto emit_seq = [&](int pi, const std::vector<int>& seq) {
            std::string body = std::string("<") + parent[pi] + " id=\"1\" version=\"1\" lat=\"1\" lon=\"2\" user=\"u\" uid=\"1\">", name;
            for (int k : seq) { body += kid[k]; name += std::string(name.empty() ? "" : ",") + kname[k]; }
            body += std::string("</") + parent[pi] + ">";
            // a second object behind it: what a builder left open does to the next object
            body += "<node id=\"2\" lat=\"3\" lon=\"4\"><tag k=\"x\" v=\"y\"/></node>";
            xml(std::string("child order: ") + parent[pi] + " with " + name, body);
        };
        for (int pi = 0; pi < 4; ++pi)
            for (int len = 1; len <= 3; ++len) {
                std::vector<int> seq(static_cast<size_t>(len), 0);
                while (true) {
                    emit_seq(pi, seq);
                    int pos = len - 1;
                    while (pos >= 0 && ++seq[static_cast<size_t>(pos)] == 6) { seq[static_cast<size_t>(pos)] = 0; --pos; }
                    if (pos < 0) break;
                }
            }
        const int four[] = {0, 3, 4, 5};
        for (int code = 0; code < 256; ++code) emit_seq(3, {four[code & 3], four[(code >> 2) & 3], four[(code >> 4) & 3], four[(code >> 6) & 3]});
    }
    for (size_t len : lens) {
        const std::string s(len, 'u');
        xml(vh::fmt("node user of %zu bytes", len), "<node id=\"1\" version=\"1\" user=\"" + s + "\" uid=\"1\" lat=\"1\" lon=\"1\"><tag k=\"k\" v=\"v\"/></node>");
        xml(vh::fmt("changeset user of %zu bytes", len), "<changeset id=\"1\" user=\"" + s + "\" uid=\"1\"><tag k=\"k\" v=\"v\"/></changeset>");
        xml(vh::fmt("tag key of %zu bytes", len), "<node id=\"1\" lat=\"1\" lon=\"1\"><tag k=\"" + s + "\" v=\"v\"/></node>");
        xml(vh::fmt("tag value of %zu bytes", len), "<way id=\"1\"><tag k=\"k\" v=\"" + s + "\"/></way>");
        xml(vh::fmt("member role of %zu bytes", len), "<relation id=\"1\"><member type=\"node\" ref=\"1\" role=\"" + s + "\"/></relation>");
        xml(vh::fmt("comment user of %zu bytes", len), "<changeset id=\"1\"><discussion><comment uid=\"1\" user=\"" + s + "\" date=\"2020-01-01T00:00:00Z\"><text>t</text></comment></discussion></changeset>");
        xml(vh::fmt("comment text of %zu bytes", len), "<changeset id=\"1\"><discussion><comment uid=\"1\" user=\"u\" date=\"2020-01-01T00:00:00Z\"><text>" + s + "</text></comment></discussion></changeset>");
    }
    xml("comment text of 5 MiB", "<changeset id=\"1\"><discussion><comment uid=\"1\" user=\"u\" date=\"2020-01-01T00:00:00Z\"><text>" + std::string(5 * 1024 * 1024, 't') + "</text></comment></discussion></changeset>");
    xml("attribute values out of range", "<node id=\"99999999999999999999\" version=\"-1\" uid=\"-5\" changeset=\"99999999999\" timestamp=\"garbage\" lat=\"1e400\" lon=\"-\" visible=\"maybe\"/>");
    g_evil.push_back(Evil{"osm", "XML: entity expansion (billion laughs)", "<?xml version=\"1.0\"?><!DOCTYPE l [<!ENTITY a \"aaaaaaaaaa\"><!ENTITY b \"&a;&a;&a;&a;&a;&a;&a;&a;&a;&a;\"><!ENTITY c \"&b;&b;&b;&b;&b;&b;&b;&b;&b;&b;\">]><osm version=\"0.6\"><node id=\"1\" user=\"&c;\"/></osm>"});
    g_evil.push_back(Evil{"osm", "XML: wrong version", "<osm version=\"0.5\"><node id=\"1\"/></osm>"});
    g_evil.push_back(Evil{"osc", "XML: osmChange with object outside sections and nested sections", "<osmChange version=\"0.6\"><node id=\"1\"/><create><delete><node id=\"2\"/></delete></create><modify><changeset id=\"1\"/></modify></osmChange>"});
    // ---- OPL
    auto opl = [&](const std::string& cls, const std::string& line) { g_evil.push_back(Evil{"opl", "OPL: " + cls, line}); };
    for (const char* esc : {"%0%", "%d800%", "%dfff%", "%110000%", "%ffffffff%", "%%", "%", "%2", "%zz%", "%000000020%", "%fffffffff%"}) {
        opl(std::string("escape ") + esc + " in user", std::string("n1 v1 dV c1 t2020-01-01T00:00:00Z i1 uab") + esc + "cd T x1 y1\n");
        opl(std::string("escape ") + esc + " in tag", std::string("n1 Tk") + esc + "=v" + esc + " x1 y1\n");
        opl(std::string("escape ") + esc + " in role", std::string("r1 Mn1@") + esc + ",w2@x\n");
    }
    for (size_t len : lens) {
        const std::string s(len, 'u');
        opl(vh::fmt("user of %zu bytes", len), "n1 v1 u" + s + " T x1 y1\n");
        opl(vh::fmt("tag key of %zu bytes", len), "n1 T" + s + "=v x1 y1\n");
        opl(vh::fmt("role of %zu bytes", len), "r1 Mn1@" + s + "\n");
        opl(vh::fmt("changeset user of %zu bytes", len), "c1 k1 s e d0 i1 u" + s + " x y X Y T\n");
    }
    opl("line without newline and missing fields", "n1");
    opl("only type characters", "n\nw\nr\nc\n");
    opl("way nodes malformed", "w1 Nn1,,n2x1y,nx,n3xyx\nw2 N,\nw3 Nn\n");
    opl("members malformed", "r1 M@,n@,x1@r,n1,n1@%\n");
    opl("duplicate and unknown attributes", "n1 v1 v2 q7 x1 x2\n");
    opl("numbers out of range", "n99999999999999999999 v99999999999 c-1 i-1 t9999-99-99T99:99:99Z x1e999 y-\n");
    opl("very long line (2 MiB)", "n1 T" + std::string(2 * 1024 * 1024, 'k') + "=v x1 y1\n");
    opl("NUL bytes inside a line", LIT("n1 v1 uab\0cd T x1 y1\nn2 T\0=\0 x1 y1\n"));
    // ---- o5m
    auto o5m = [&](const std::string& cls, const std::string& body) { g_evil.push_back(Evil{"o5m", "o5m: " + cls, LIT("\xff\xe0\x04o5m2") + body}); };
    o5m("string reference 0 bytes beyond table", LIT("\x10\x04\x02\x00\x01\x01"));
    o5m("string reference to never stored entry (15000)", LIT("\x10\x05\x02\x00\x02\x02\x98\x75"));
    o5m("string reference > 15000", LIT("\x10\x06\x02\x00\x02\x02\xff\xff\x03"));
    o5m("dataset length beyond the file", LIT("\x10\xff\xff\xff\x7f\x02"));
    o5m("dataset length 2^63", LIT("\x11\x80\x80\x80\x80\x80\x80\x80\x80\x80\x01\x02"));
    o5m("unterminated inline string", LIT("\x10\x08\x02\x01\x02\x02\x00") + "abc");
    o5m("way: refs section longer than the dataset", LIT("\x11\x04\x02\x00\x7f\x02"));
    o5m("relation: refs section longer than the dataset, member without type", LIT("\x12\x06\x02\x00\x03\x02\x00\x00"));
    o5m("relation: member type character invalid", LIT("\x12\x08\x02\x00\x04\x02\x00\x39\x72\x00"));
    o5m("version with timestamp but nothing else", LIT("\x10\x03\x02\x01\x02"));
    o5m("uid string without NUL", LIT("\x10\x0a\x02\x01\x02\x02\x00\x81\x81\x81\x81\x81"));
    o5m("uid varint too long", LIT("\x10\x12\x02\x01\x02\x02\x00\xff\xff\xff\xff\xff\xff\xff\xff\xff\xff\x01\x00u\x00\x02\x02"));
    for (size_t len : {size_t(250), size_t(251), size_t(252), size_t(253), size_t(1024), size_t(65535), size_t(70000)}) {
        std::string ds; ds += LIT("\x02\x00"); ds += LIT("\x02\x02"); ds += '\0'; ds += std::string(len, 'k'); ds += '\0'; ds += "v"; ds += '\0';
        std::string body; body += '\x10'; pb::put_varint(body, ds.size()); body += ds;
        o5m(vh::fmt("tag key of %zu bytes", len), body);
    }
    {   // bounding box datasets (0xdb) with swapped, undefined (INT32_MAX) and out-of-range corners
        auto bbox = [&](const char* cls, int64_t a, int64_t b, int64_t c, int64_t d) {
            std::string ds; for (int64_t v : {a, b, c, d}) pb::put_varint(ds, pb::zigzag(v));
            std::string body; body += static_cast<char>(0xdb); pb::put_varint(body, ds.size()); body += ds;
            body += LIT("\x10\x04\x02\x00\x02\x02");
            o5m(cls, body);
        };
        bbox("bounding box with swapped corners", 100, 100, -100, -100);
        bbox("bounding box with an undefined corner", 2147483647, 5, 1, 2147483647);
        bbox("bounding box with undefined corner and wrong order", 5, 5, 2147483647, -7);
        bbox("bounding box out of range", 3000000000LL, -3000000000LL, 9000000000LL, 1LL << 40);
    }
    g_evil.push_back(Evil{"o5m", "o5m: header only / wrong magic", LIT("\xff\xe0\x04o5x2")});
    g_evil.push_back(Evil{"o5m", "o5m: header length mismatch", LIT("\xff\xe0\x7fo5m2")});
}

void case_evil(uint64_t idx, vh::Rng&) {
    if (idx >= g_evil.size()) return;
    const Evil& e = g_evil[idx];
    vh::set_case_desc("evil %s", e.cls.c_str());
    run_input(e.bytes, e.fmt, e.cls);
    // the same input behind the compression wrappers
    if (e.bytes.size() < 200000) {
        vh::set_case_desc("evil %s (gzip wrapped)", e.cls.c_str());
        run_input(gz(e.bytes), e.fmt + ".gz", e.cls + " (gzip)");
    }
    vh::evaluated(2);
    vh::count("distinct_by_construction", 2);
    vh::count("crafted_inputs", 2);
    vh::cover("crafted_class", e.cls.substr(0, e.cls.find(':')));
    if (idx % 60 == 0) vh::sample_str("crafted input: " + e.cls + vh::fmt(" (%zu bytes)", e.bytes.size()));
}

// ------------------------------------------------------------------ buffer-growth sweep (valid inputs)
//
// A tiny first object, then an object whose size is swept in element steps across the capacity
// of the decoder's output buffer (1 KiB / 4 KiB in the tiny-buffer build, 64 KiB for the PBF
// decoder of the normal build), followed by one long string: the buffer has to grow (and, for
// auto_grow::internal, to hand over its committed part) at every possible fill level, and the
// piece that crosses the boundary is larger than the room that is left. Plus o5m inputs that
// fill the string reference table (15000 entries) up to and past its wrap-around.

constexpr size_t GROW_CAPS[] = {1024, 4096, 65536};
struct GrowKind { const char* name; size_t elem; };
const GrowKind GROW_KINDS[] = {{"way node refs", 16}, {"relation members", 24}, {"tags", 8}};
const char* const GROW_FMT[] = {"opl", "osm", "pbf"};
const char* const GROW_OPTS[] = {"opl", "osm", "pbf,pbf_compression=none,pbf_dense_nodes=false"};
constexpr size_t GROW_SPAN = 760;   // bytes below the capacity where the sweep starts (ends 60 above)
const size_t GROW_O5M[] = {14998, 14999, 15000, 15001, 15002, 30001};

uint64_t grow_cases() {
    uint64_t n = 0;
    for (const auto& k : GROW_KINDS) n += (GROW_SPAN + 60) / k.elem + 1;
    return n * 3 /*caps*/ * 2 /*string lengths*/ * 3 /*formats*/ + sizeof(GROW_O5M) / sizeof(GROW_O5M[0]);
}

std::string o5m_table_fill(size_t entries) {
    std::string o = LIT("\xff\xe0\x04o5m2");
    for (size_t i = 0; i < entries; ++i) {
        std::string body = LIT("\x02\x00\x00\x00");   // id +1, no version info, lon +0, lat +0
        const std::string kv = "k" + std::to_string(i);
        body += '\0'; body += kv; body += '\0'; body += "v"; body += '\0';      // inline pair: stored in the table
        o += '\x10'; o += static_cast<char>(body.size()); o += body;
    }
    // nodes referring back: most recent entry, the one before, the oldest ones
    for (unsigned ref : {1U, 2U, 3U, 14999U, 15000U}) {
        std::string body = LIT("\x02\x00\x00\x00");
        if (ref < 128) body += static_cast<char>(ref); else { body += static_cast<char>((ref & 0x7f) | 0x80); body += static_cast<char>(ref >> 7); }
        o += '\x10'; o += static_cast<char>(body.size()); o += body;
    }
    o += '\xfe';
    return o;
}

void case_grow(uint64_t idx, vh::Rng&) {
    const size_t no5m = sizeof(GROW_O5M) / sizeof(GROW_O5M[0]);
    if (idx < no5m) {
        const std::string cls = vh::fmt("o5m: %zu strings stored in the reference table, then back references", GROW_O5M[idx]);
        vh::set_case_desc("grow %s", cls.c_str());
        run_input(o5m_table_fill(GROW_O5M[idx]), "o5m", cls);
        vh::evaluated(); vh::count("distinct_by_construction"); vh::count("o5m_reference_table_fill_inputs");
        return;
    }
    uint64_t i = idx - no5m;
    const size_t fmt = i % 3; i /= 3;
    const size_t L = (i % 2) ? 1000 : 300; i /= 2;
    const size_t cap = GROW_CAPS[i % 3]; i /= 3;
    size_t kind = 0;
    for (; kind < 3; ++kind) { const uint64_t n = (GROW_SPAN + 60) / GROW_KINDS[kind].elem + 1; if (i < n) break; i -= n; }
    if (kind == 3) return;
    const size_t target = cap - GROW_SPAN + static_cast<size_t>(i) * GROW_KINDS[kind].elem;   // approximate size of the pending object
    const size_t n = target / GROW_KINDS[kind].elem;
    std::vector<mdl::Obj> D;
    mdl::Obj tiny; tiny.type = mdl::NODE; tiny.id = 1; tiny.version = 1; tiny.user = "u"; tiny.uid = 1; tiny.changeset = 1; tiny.timestamp = 1000; tiny.x = 10; tiny.y = 20;
    mdl::Obj big; big.id = 2; big.version = 1; big.user = "u"; big.uid = 1; big.changeset = 1; big.timestamp = 1000;
    if (kind == 0) { big.type = mdl::WAY; for (size_t k = 0; k < n; ++k) big.nodes.push_back(mdl::NodeRef{static_cast<int64_t>(100 + k), mdl::UNDEF, mdl::UNDEF}); big.tags.push_back(mdl::Tag{"name", std::string(L, 'x')}); }
    else if (kind == 1) { big.type = mdl::RELATION; tiny.type = mdl::RELATION; tiny.x = tiny.y = mdl::UNDEF; for (size_t k = 0; k < n; ++k) big.members.push_back(mdl::Member{1 + static_cast<int>(k % 3), static_cast<int64_t>(100 + k), "r"}); big.tags.push_back(mdl::Tag{"name", std::string(L, 'x')}); }
    else { big.type = mdl::NODE; big.x = 30; big.y = 40; for (size_t k = 0; k < n; ++k) big.tags.push_back(mdl::Tag{vh::fmt("%03zu", k % 1000), "vvv"}); big.tags.push_back(mdl::Tag{"name", std::string(L, 'x')}); big.user = std::string(L / 4, 'U'); }
    if (kind == 0) { tiny.type = mdl::WAY; tiny.x = tiny.y = mdl::UNDEF; tiny.nodes.push_back(mdl::NodeRef{7, mdl::UNDEF, mdl::UNDEF}); }
    D.push_back(tiny); D.push_back(big);
    mdl::Obj after = tiny; after.id = 3; D.push_back(after);
    static const std::string dir = iou::scratch_dir("c03g");
    const std::string path = dir + "/g";
    ::unlink(path.c_str());
    {
        osmium::io::File file{path, GROW_OPTS[fmt]};
        osmium::io::Writer writer{file, osmium::io::Header{}, osmium::io::overwrite::allow, *g_pool};
        osmium::memory::Buffer buf{256 * 1024, osmium::memory::Buffer::auto_grow::yes};
        for (const auto& o : D) mdl::to_buffer(o, buf);
        writer(std::move(buf));
        writer.close();
    }
    const std::string bytes = iou::slurp(path);
    ::unlink(path.c_str());
    const std::string cls = vh::fmt("valid %s: tiny object, then %s growing to about the buffer capacity (%zu bytes) and a string of %zu bytes", GROW_FMT[fmt], GROW_KINDS[kind].name, cap, L);
    vh::set_case_desc("grow %s n=%zu", cls.c_str(), n);
    run_input(bytes, GROW_FMT[fmt], cls);
    vh::evaluated(); vh::count("distinct_by_construction"); vh::count("buffer_growth_sweep_inputs");
    vh::cover("growth_sweep", vh::fmt("%s %s cap=%zu", GROW_FMT[fmt], GROW_KINDS[kind].name, cap));
    if (idx % 500 == 7) vh::sample_str("growth sweep: " + cls + vh::fmt(" (n=%zu, %zu bytes of input)", n, bytes.size()));
}

// ------------------------------------------------------------------ seeded structure-aware mutations

void mutate_bytes(std::string& s, vh::Rng& rng, int n) {
    static const unsigned char interesting[] = {0x00, 0x01, 0x7f, 0x80, 0xff, 0xfe, 0x10, 0x11, 0x12, 0x0a, 0x20, 0x25, 0x3c, 0x3e, 0x22, 0x26};
    for (int i = 0; i < n && !s.empty(); ++i) {
        const size_t p = rng.below(s.size());
        switch (rng.below(7)) {
            case 0: s[p] = static_cast<char>(rng.pick(interesting)); break;
            case 1: s[p] = static_cast<char>(rng.next()); break;
            case 2: s[p] = static_cast<char>(s[p] ^ (1U << rng.below(8))); break;
            case 3: s.erase(p, 1 + rng.below(4)); break;
            case 4: s.insert(p, std::string(1 + rng.below(4), static_cast<char>(rng.pick(interesting)))); break;
            case 5: { const size_t q = rng.below(s.size()); const size_t len = std::min<size_t>(1 + rng.below(16), s.size() - q); s.insert(p, s.substr(q, len)); break; }
            default: { const size_t len = std::min<size_t>(1 + rng.below(8), s.size() - p); for (size_t k = 0; k < len; ++k) s[p + k] = static_cast<char>(0xff); break; }
        }
    }
}

// re-frame a PBF file after mutating the *uncompressed* payload of one blob
std::string mutate_pbf(const std::string& file, vh::Rng& rng) {
    struct B { std::string type, raw; int kind; };
    std::vector<B> blobs;
    size_t off = 0;
    try {
        while (off + 4 <= file.size()) {
            const auto* u = reinterpret_cast<const unsigned char*>(file.data() + off);
            const size_t hl = (size_t(u[0]) << 24) | (size_t(u[1]) << 16) | (size_t(u[2]) << 8) | u[3];
            if (hl > file.size() - off - 4) break;
            pb::Reader h{file.data() + off + 4, hl};
            std::string type; size_t datasize = 0;
            while (h.next()) { if (h.field == 1 && h.wire == 2) type = h.bytes(); else if (h.field == 3) datasize = static_cast<size_t>(h.value); }
            off += 4 + hl;
            if (datasize > file.size() - off) break;
            pb::Reader b{file.data() + off, datasize};
            B blob; blob.type = type; blob.kind = 0;
            int64_t raw_size = -1; std::string z;
            while (b.next()) { if (b.field == 1 && b.wire == 2) blob.raw = b.bytes(); else if (b.field == 2) raw_size = static_cast<int64_t>(b.value); else if (b.field == 3 && b.wire == 2) { z = b.bytes(); blob.kind = 1; } }
            if (blob.kind == 1 && raw_size >= 0) { if (!pb::zlib_inflate(z.data(), z.size(), static_cast<size_t>(raw_size), blob.raw)) blob.raw = z; }
            blobs.push_back(blob);
            off += datasize;
        }
    } catch (const pb::parse_error&) {
    }
    if (blobs.empty()) return file;
    B& target = blobs[rng.below(blobs.size())];
    mutate_bytes(target.raw, rng, 1 + static_cast<int>(rng.below(4)));
    std::string out;
    for (const auto& b : blobs) out += pbf_frame(b.type, b.raw, rng.coin() ? 1 : 0);
    return out;
}

void case_smart(uint64_t idx, vh::Rng& rng) {
    const Seed& s = g_seeds[rng.below(g_seeds.size())];
    std::string m;
    std::string cls;
    std::string fmt = s.fmt;
    const bool compressed = fmt.find(".gz") != std::string::npos || fmt.find(".bz2") != std::string::npos;
    const int kind = static_cast<int>(rng.below(4));
    if (fmt == "pbf" && kind != 3) { m = mutate_pbf(s.bytes, rng); cls = "PBF re-framed after mutating the uncompressed blob"; }
    else if (compressed) { m = s.bytes; mutate_bytes(m, rng, 1 + static_cast<int>(rng.below(3))); cls = "compressed bytes mutated"; }
    else if (kind == 0 && fmt != "pbf") { m = s.bytes; mutate_bytes(m, rng, 1 + static_cast<int>(rng.below(6))); m = gz(m); fmt += ".gz"; cls = "payload mutated then gzip compressed"; }
    else if (kind == 1 && fmt != "pbf") { m = s.bytes; mutate_bytes(m, rng, 1 + static_cast<int>(rng.below(6))); m = bz(m); fmt += ".bz2"; cls = "payload mutated then bzip2 compressed"; }
    else { m = s.bytes; mutate_bytes(m, rng, 1 + static_cast<int>(rng.below(8))); cls = "random byte/insert/delete/copy mutations"; }
    vh::set_case_desc("smart %s of '%s' (%s)", cls.c_str(), s.name.c_str(), fmt.c_str());
    run_input(m, fmt, cls + " of " + s.name);
    vh::evaluated();
    vh::distinct(vh::hash_str(m, vh::hash_str(fmt)));
    vh::count("mutated_inputs");
    vh::cover("mutation_class", cls + " / " + fmt);
    if (idx % 2000 == 0) vh::sample_str(cls + " of '" + s.name + vh::fmt("' (%s, %zu bytes): %s", fmt.c_str(), m.size(), vh::hexdump(m.substr(0, 40)).c_str()));
}

// ------------------------------------------------------------------ replay of files

std::vector<std::pair<std::string, std::string>> g_list;   // (path, fmt)

void case_file(uint64_t idx, vh::Rng&) {
    if (idx >= g_list.size()) return;
    const std::string bytes = iou::slurp(g_list[idx].first);
    vh::set_case_desc("file %s as %s", g_list[idx].first.c_str(), g_list[idx].second.c_str());
    run_input(bytes, g_list[idx].second, "fuzzer artifact/corpus file");
    vh::evaluated();
    vh::distinct(vh::hash_str(bytes, vh::hash_str(g_list[idx].second)));
    vh::count("replayed_files");
}

} // namespace

int main(int argc, char** argv) {
    vh::parse_args(argc, argv);
    g_pool = new osmium::thread::Pool{2, 20};
    const std::string mode = vh::arg("mode", "evil");
    auto finish = [] {
        vh::count("inputs_accepted", n_ok); vh::count("inputs_rejected_with_std_exception", n_rejected);
        vh::count("items_traversed", g_stats.items); vh::count("strings_traversed", g_stats.strings);
    };
    if (mode == "file") {
        std::ifstream in{vh::arg("list", "")};
        std::string p, f;
        while (in >> p >> f) g_list.emplace_back(p, f);
        return vh::run_cases(argc, argv, g_list.size(), case_file, finish);
    }
    if (mode == "evil" || mode == "count") build_evil();
    if (mode != "evil" && mode != "grow") build_seeds(vh::st().seed);
    if (mode == "count") { std::printf("%" PRIu64 " %" PRIu64 " %zu %zu %" PRIu64 "\n", prefix_cases(), subst_cases(), g_evil.size(), g_seeds.size(), grow_cases()); return 0; }
    if (mode == "dump") {   // write the seeds as fuzzing corpus: <dir>/<fmt>/seedN
        const std::string dir = vh::arg("dir", "");
        for (size_t i = 0; i < g_seeds.size(); ++i) {
            if (g_seeds[i].fmt.find('.') != std::string::npos && g_seeds[i].fmt.find("pbf") != 0) { /* compressed wrappers too */ }
            const std::string d = dir + "/" + g_seeds[i].fmt;
            ::mkdir(d.c_str(), 0755);
            iou::spit(d + "/seed" + std::to_string(i), g_seeds[i].bytes);
        }
        return 0;
    }
    if (mode == "prefix") return vh::run_cases(argc, argv, prefix_cases(), case_prefix, finish);
    if (mode == "subst") return vh::run_cases(argc, argv, subst_cases(), case_subst, finish);
    if (mode == "smart") return vh::run_cases(argc, argv, 20000, case_smart, finish);
    if (mode == "grow") return vh::run_cases(argc, argv, grow_cases(), case_grow, finish);
    return vh::run_cases(argc, argv, g_evil.size(), case_evil, finish);
}
