// C08 - the Writer produces the complete file or throws.
//
// modes
//   rlimit : case = (configuration, byte offset o). A forked child sets
//            RLIMIT_FSIZE = o (SIGXFSZ ignored), so the kernel refuses the first
//            write that reaches offset o with EFBIG on *every* code path (plain
//            write(2), zlib's and stdio's internal writes). The child runs the
//            Writer scenario and reports through a pipe which call threw.
//   one    : runs ONE scenario on --path and prints the outcome as JSON; the
//            driver runs this under `strace -e inject=...` (n-th write / fsync /
//            close fails with ENOSPC / EIO).
//   mock   : throwing Compressor registered through CompressionFactory (ctor /
//            k-th write / close) and an unencodable string (encoder failure in a
//            pool worker), with seeded schedule perturbation.
// Oracle: close() returned normally => file size == return value == stat size
// and the file decodes (with the Reader) to exactly the objects written; a fault
// that demonstrably fired => some call among operator(), flush(), close() threw,
// afterwards operator() throws io_error, the destructor returns and the thread
// count is back at the baseline.

#include "io_util.hpp"
#include "../c08_common.hpp"

#include <osmium/io/any_compression.hpp>

#include <dirent.h>
#include <signal.h>
#include <sys/resource.h>
#include <sys/wait.h>

namespace {

using namespace c08;

// crude field extraction from the child's JSON line
std::string jget(const std::string& j, const std::string& key) {
    const auto p = j.find("\"" + key + "\":");
    if (p == std::string::npos) return "";
    size_t q = p + key.size() + 3;
    if (j[q] == '"') { const auto e = j.find('"', q + 1); return j.substr(q + 1, e - q - 1); }
    size_t e = q; while (e < j.size() && j[e] != ',' && j[e] != '}') ++e;
    return j.substr(q, e - q);
}

std::string g_dir;

// decoded content of a complete file must equal D
std::string verify_file(const std::string& path, const Cfg& c, const std::vector<mdl::Obj>& D) {
    osmium::thread::Pool pool{2, 10};
    const std::string f = std::string(c.fmt) + (c.comp == 1 ? ".gz" : c.comp == 2 ? ".bz2" : "");
    iou::ReadResult r = iou::read_all(osmium::io::File{path, f}, osmium::osm_entity_bits::all, pool);
    if (!r.ok) return "file reported as complete cannot be read: " + r.error_type;
    if (r.objs.size() != D.size()) return "file reported as complete holds a different number of objects";
    for (size_t i = 0; i < D.size(); ++i) if (!mdl::diff(D[i], r.objs[i]).empty()) return "file reported as complete holds different objects";
    return "";
}

size_t file_size(const std::string& p) { struct stat st; return ::stat(p.c_str(), &st) == 0 ? static_cast<size_t>(st.st_size) : 0; }

// ------------------------------------------------------------------ rlimit mode

struct Base { std::vector<mdl::Obj> D; size_t full_size = 0; };
std::map<size_t, Base> g_base;

const Base& base_for(size_t ci, uint64_t seed) {
    auto it = g_base.find(ci);
    if (it != g_base.end()) return it->second;
    Base b;
    vh::Rng rng{seed, 0xBA5E + ci};
    b.D = make_data(rng, CFGS[ci], 24);
    const std::string path = g_dir + "/base";
    ::unlink(path.c_str());
    const Outcome o = run_writer(path, CFGS[ci], b.D, 2, true, 3);
    if (!o.close_returned) vh::violation("Writer failed without any fault: " + cfg_name(CFGS[ci]), o.error_type + ": " + o.error);
    b.full_size = file_size(path);
    if (o.close_returned && o.close_size != b.full_size) vh::violation("close() return value differs from the file size: " + cfg_name(CFGS[ci]), vh::fmt("%zu vs %zu", o.close_size, b.full_size));
    const std::string v = o.close_returned ? verify_file(path, CFGS[ci], b.D) : "";
    if (!v.empty()) vh::violation(v + ": " + cfg_name(CFGS[ci]), "no fault injected");
    ::unlink(path.c_str());
    return g_base.emplace(ci, std::move(b)).first->second;
}

void case_rlimit(uint64_t idx, vh::Rng& rng) {
    const size_t ci = static_cast<size_t>(idx % NCFG);
    const Cfg& c = CFGS[ci];
    const Base& b = base_for(ci, vh::st().seed);
    if (b.full_size == 0) return;
    // offset: enumerate densely near the start and the end, seeded elsewhere
    const uint64_t k = idx / NCFG;
    size_t o;
    const size_t dense = static_cast<size_t>(vh::arg_int("dense", 64));
    if (k < dense) o = static_cast<size_t>(k);
    else if (k < 2 * dense) o = b.full_size - 1 - static_cast<size_t>(k - dense) % b.full_size;
    else if (k < 2 * dense + 4) o = b.full_size + static_cast<size_t>(k - 2 * dense);   // control: the limit is not reached
    else o = static_cast<size_t>(rng.below(b.full_size + 8));
    const bool flush_mid = (k & 1U) != 0;
    const int nthreads = (k & 2U) ? 1 : 3;
    const std::string path = g_dir + "/out";
    ::unlink(path.c_str());
    vh::set_case_desc("rlimit %s offset %zu of %zu", cfg_name(c).c_str(), o, b.full_size);
    int pfd[2];
    if (::pipe(pfd) != 0) { vh::violation("harness: pipe failed", ""); return; }
    const pid_t pid = ::fork();
    if (pid == 0) {
        ::close(pfd[0]);
        struct rlimit rl; rl.rlim_cur = o; rl.rlim_max = o;
        ::signal(SIGXFSZ, SIG_IGN);
        ::setrlimit(RLIMIT_FSIZE, &rl);
        const Outcome out = run_writer(path, c, b.D, nthreads, flush_mid, 3);
        const std::string j = outcome_json(out) + "\n";
        ssize_t w = ::write(pfd[1], j.data(), j.size()); (void)w;
        ::_exit(0);
    }
    ::close(pfd[1]);
    // read the child's report under a watchdog
    std::string j;
    {
        const auto deadline = std::chrono::steady_clock::now() + std::chrono::seconds(90);
        ::fcntl(pfd[0], F_SETFL, O_NONBLOCK);
        char buf[4096];
        while (true) {
            const ssize_t n = ::read(pfd[0], buf, sizeof(buf));
            if (n > 0) { j.append(buf, static_cast<size_t>(n)); continue; }
            if (n == 0) break;
            if (std::chrono::steady_clock::now() > deadline) break;
            std::this_thread::sleep_for(std::chrono::milliseconds(2));
            vh::heartbeat();
        }
    }
    ::close(pfd[0]);
    int status = 0;
    bool child_done = false;
    for (int i = 0; i < 3000; ++i) { if (::waitpid(pid, &status, WNOHANG) == pid) { child_done = true; break; } std::this_thread::sleep_for(std::chrono::milliseconds(10)); }
    const std::string where = cfg_name(c);
    if (!child_done || j.empty()) {
        ::kill(pid, SIGKILL); ::waitpid(pid, &status, 0);
        if (!child_done) vh::violation("hang: Writer did not finish after a write error: " + where, vh::fmt("RLIMIT_FSIZE=%zu of %zu", o, b.full_size));
        else vh::violation("Writer process died after a write error: " + where, vh::fmt("RLIMIT_FSIZE=%zu status=%d", o, status));
        return;
    }
    const bool fault_fired = o < b.full_size;
    const bool close_returned = jget(j, "close_returned") == "1";
    const std::string threw_at = jget(j, "threw_at");
    const std::string detail = vh::fmt("RLIMIT_FSIZE=%zu of %zu, flush_mid=%d, pool=%d: ", o, b.full_size, flush_mid, nthreads) + j;
    if (jget(j, "foreign") == "1") vh::violation("Writer: exception not derived from std::exception: " + where, detail);
    if (fault_fired) {
        vh::count("write_faults_fired");
        if (close_returned) vh::violation("write error (EFBIG) lost: close() returned normally although the file is incomplete: " + where, detail);
        else {
            vh::count(std::string("fault_reported_by_") + threw_at);
            if (jget(j, "after_checked") == "1" && jget(j, "after_io_error") != "1") vh::violation("Writer in error state accepted further data: " + where, detail);
        }
        if (file_size(path) > o) vh::violation("harness: file larger than RLIMIT_FSIZE", detail);
    } else {
        vh::count("control_runs_without_fault");
        if (!close_returned) vh::violation("Writer failed although the limit was not reached: " + where, detail);
        else {
            const size_t sz = file_size(path);
            if (std::to_string(sz) != jget(j, "close_size")) vh::violation("close() return value differs from the file size: " + where, detail);
            const std::string v = verify_file(path, c, b.D);
            if (!v.empty()) vh::violation(v + ": " + where, detail);
        }
    }
    ::unlink(path.c_str());
    vh::evaluated();
    vh::distinct(vh::hash_u64(o, vh::hash_u64(ci * 4 + (flush_mid ? 1 : 0) + (nthreads == 1 ? 2 : 0))));
    vh::cover("config", where);
    if (idx % 400 == 0) vh::sample_str(vh::fmt("%s: RLIMIT_FSIZE=%zu of %zu bytes -> ", where.c_str(), o, b.full_size) + j.substr(0, 160));
}

// ------------------------------------------------------------------ one (for strace)

int mode_one() {
    const size_t ci = static_cast<size_t>(vh::arg_int("cfg", 0)) % NCFG;
    const std::string path = vh::arg("path", "");
    vh::Rng rng{vh::st().seed, 0xBA5E + ci};
    const std::vector<mdl::Obj> D = make_data(rng, CFGS[ci], 24);
    const Outcome o = run_writer(path, CFGS[ci], D, 2, vh::arg_int("flush", 1) != 0, 3);
    std::string v;
    if (o.close_returned) {
        v = verify_file(path, CFGS[ci], D);
        if (v.empty() && file_size(path) != o.close_size) v = "close() return value differs from the file size";
    }
    std::printf("%s\n{\"verify\":\"%s\",\"cfg\":\"%s\"}\n", outcome_json(o).c_str(), v.c_str(), cfg_name(CFGS[ci]).c_str());
    return 0;
}

} // namespace

int main(int argc, char** argv) {
    vh::parse_args(argc, argv);
    { std::thread warm{[] {}}; warm.join(); }
    const std::string mode = vh::arg("mode", "rlimit");
    if (mode == "one") return mode_one();
    g_dir = iou::scratch_dir("c08");
    int rc;
    rc = vh::run_cases(argc, argv, NCFG * 200, case_rlimit);
    ::rmdir(g_dir.c_str());
    return rc;
}
