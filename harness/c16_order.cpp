// C16 - object orderings are consistent strict weak orders; CheckOrder agrees.
//
// Part A (mode=axioms): attribute grid of 648 objects. The result matrices of
// the real comparators are computed by calling them on real objects built with
// the real builders; case i = first object index a. For every a: all pairs
// (a,b) against the reference order + irreflexivity/asymmetry/mutual
// consistency, and triples (a,b,c): transitivity and transitivity of
// incomparability (all triples in the thorough tier, seeded random ones in the
// quick tier).
// Part B (mode=checkorder): case i enumerates sequences over the 27 (type,id)
// grid: all sequences of length <= 4; CheckOrder must accept iff strictly
// ascending under the reference key.
// Part C (mode=sort): random collections sorted with each functor through
// ObjectPointerCollection / std::sort; distinct (type,id) => CheckOrder accepts.

#include "vh.hpp"

#include <osmium/builder/osm_object_builder.hpp>
#include <osmium/handler/check_order.hpp>
#include <osmium/memory/buffer.hpp>
#include <osmium/object_pointer_collection.hpp>
#include <osmium/osm/object_comparisons.hpp>
#include <osmium/visitor.hpp>

#include <algorithm>
#include <array>
#include <limits>
#include <tuple>

namespace {

const int64_t IDS[9] = {std::numeric_limits<int64_t>::min() + 1, -(1LL << 32), -2, -1, 0, 1, 2, 1LL << 32,
                        std::numeric_limits<int64_t>::max()};
const uint32_t VERSIONS[4] = {0, 1, 2, 0x7fffffffU};
const uint32_t TIMES[3] = {0 /* not set */, 1000000000U, 0xfffffffeU};

struct Attr {
    int type;  // 0 node 1 way 2 relation
    int64_t id;
    uint32_t version;
    uint32_t ts;
    bool visible;
};

// reference rank of an id under the documented rule: 0 first, then negative
// ids, then positive ids, both by absolute value
std::pair<int, unsigned __int128> idrank(int64_t id) {
    if (id == 0) return {0, 0};
    if (id < 0) return {1, static_cast<unsigned __int128>(-static_cast<__int128>(id))};
    return {2, static_cast<unsigned __int128>(id)};
}

using RefKey = std::tuple<int, int, unsigned __int128, uint32_t, uint32_t>;
RefKey refkey(const Attr& a, bool with_ts) { auto r = idrank(a.id); return RefKey{a.type, r.first, r.second, a.version, with_ts ? a.ts : 0}; }
using TypeIdKey = std::tuple<int, int, unsigned __int128>;
TypeIdKey tikey(const Attr& a) { auto r = idrank(a.id); return TypeIdKey{a.type, r.first, r.second}; }

std::vector<Attr> attrs;
osmium::memory::Buffer* buffer = nullptr;
std::vector<const osmium::OSMObject*> objs;

void add_object(osmium::memory::Buffer& buf, const Attr& a) {
    using namespace osmium::builder;
    if (a.type == 0) {
        NodeBuilder b{buf};
        b.set_id(a.id).set_version(a.version).set_timestamp(osmium::Timestamp{a.ts}).set_visible(a.visible);
    } else if (a.type == 1) {
        WayBuilder b{buf};
        b.set_id(a.id).set_version(a.version).set_timestamp(osmium::Timestamp{a.ts}).set_visible(a.visible);
    } else {
        RelationBuilder b{buf};
        b.set_id(a.id).set_version(a.version).set_timestamp(osmium::Timestamp{a.ts}).set_visible(a.visible);
    }
    buf.commit();
}

void build_grid() {
    for (int t = 0; t < 3; ++t)
        for (int64_t id : IDS)
            for (uint32_t v : VERSIONS)
                for (uint32_t ts : TIMES)
                    for (int vis = 0; vis < 2; ++vis) attrs.push_back(Attr{t, id, v, ts, vis == 1});
    buffer = new osmium::memory::Buffer{1024UL * 1024UL, osmium::memory::Buffer::auto_grow::yes};
    for (const auto& a : attrs) add_object(*buffer, a);
    for (auto& o : buffer->select<osmium::OSMObject>()) objs.push_back(&o);
    if (objs.size() != attrs.size()) { vh::violation("harness: grid build mismatch", ""); }
}

std::string describe(size_t i) {
    const Attr& a = attrs[i];
    return vh::fmt("%c%" PRId64 "v%u t%u %s", "nwr"[a.type], a.id, a.version, a.ts, a.visible ? "vis" : "del");
}

// comparator result matrices: 0 operator<, 1 functor type_id_version, 2 without_timestamp, 3 reverse_version
constexpr int NF = 4;
const char* FN[NF] = {"operator<", "object_order_type_id_version", "object_order_type_id_version_without_timestamp",
                      "object_order_type_id_reverse_version"};
std::vector<uint8_t> M[NF];
size_t N = 0;

bool call(int f, const osmium::OSMObject& a, const osmium::OSMObject& b, bool by_pointer) {
    switch (f) {
        case 0: return a < b;
        case 1: return by_pointer ? osmium::object_order_type_id_version{}(&a, &b) : osmium::object_order_type_id_version{}(a, b);
        case 2: return by_pointer ? osmium::object_order_type_id_version_without_timestamp{}(&a, &b) : osmium::object_order_type_id_version_without_timestamp{}(a, b);
        default: return by_pointer ? osmium::object_order_type_id_reverse_version{}(&a, &b) : osmium::object_order_type_id_reverse_version{}(a, b);
    }
}

void compute_matrices() {
    N = objs.size();
    for (int f = 0; f < NF; ++f) {
        M[f].assign(N * N, 0);
        for (size_t a = 0; a < N; ++a)
            for (size_t b = 0; b < N; ++b) {
                bool r = call(f, *objs[a], *objs[b], false);
                bool rp = call(f, *objs[a], *objs[b], true);
                if (r != rp) vh::violation(std::string("pointer and reference overloads disagree: ") + FN[f], describe(a) + " / " + describe(b));
                M[f][a * N + b] = r;
            }
    }
    vh::count("comparator_calls", NF * N * N * 2);
}

// regime membership: f in {0,1,3} use timestamps -> only objects with ts set
// ("timestamps all set") or only objects with ts unset (then ts is ignored by
// construction); f == 2 ignores timestamps -> all objects.
bool in_regime(int f, int regime, size_t i) {
    if (f == 2) return true;
    return regime == 0 ? attrs[i].ts != 0 : attrs[i].ts == 0;
}

void check_pair(int f, size_t a, size_t b) {
    const bool ab = M[f][a * N + b], ba = M[f][b * N + a];
    const Attr &x = attrs[a], &y = attrs[b];
    if (a == b && ab) vh::violation(std::string("irreflexivity: ") + FN[f], describe(a));
    if (ab && ba) vh::violation(std::string("asymmetry: ") + FN[f], describe(a) + " / " + describe(b));
    // reference
    bool expect, decided = true;
    if (f == 0 || f == 1) {
        expect = refkey(x, true) < refkey(y, true);
    } else if (f == 2) {
        expect = refkey(x, false) < refkey(y, false);
    } else {
        if (tikey(x) != tikey(y)) expect = tikey(x) < tikey(y);
        else if (x.version != y.version) expect = x.version > y.version;
        else if (x.ts != y.ts) expect = x.ts > y.ts;
        else { decided = false; expect = false; }
    }
    if (decided && ab != expect) {
        vh::violation(std::string("order differs from documented order: ") + FN[f],
                      vh::fmt("%s < %s gave %d expected %d", describe(a).c_str(), describe(b).c_str(), ab, expect));
    }
    // agreement with equality on (type,id,version)
    const bool eq = (*objs[a] == *objs[b]);
    const bool eq_ref = x.type == y.type && x.id == y.id && x.version == y.version;
    if (eq != eq_ref) vh::violation("operator== differs from (type,id,version) equality", describe(a) + " / " + describe(b));
    if (osmium::object_equal_type_id_version{}(*objs[a], *objs[b]) != eq_ref) vh::violation("object_equal_type_id_version wrong", describe(a) + " / " + describe(b));
    if (osmium::object_equal_type_id{}(*objs[a], *objs[b]) != (x.type == y.type && x.id == y.id)) vh::violation("object_equal_type_id wrong", describe(a) + " / " + describe(b));
    if (f == 2 && eq_ref && (ab || ba)) vh::violation("equal objects ordered by without_timestamp functor", describe(a) + " / " + describe(b));
    if (f == 2 && !eq_ref && !ab && !ba) vh::violation("different (type,id,version) incomparable in without_timestamp functor", describe(a) + " / " + describe(b));
    if (!eq_ref) {
        // all orders agree on the (type,id) part, and f0/f1/f2 agree on version
        for (int g = 0; g < NF; ++g) {
            if (g == f) continue;
            if (tikey(x) != tikey(y) && M[g][a * N + b] != ab) vh::violation(std::string("functors disagree on (type,id) order: ") + FN[f] + " vs " + FN[g], describe(a) + " / " + describe(b));
        }
    }
    // id_order agrees
    if (x.type == y.type) {
        bool io = osmium::id_order{}(x.id, y.id);
        auto rx = idrank(x.id), ry = idrank(y.id);
        if (io != (rx < ry)) vh::violation("id_order differs from the documented id rule", vh::fmt("%" PRId64 " vs %" PRId64, x.id, y.id));
    }
}

void check_triple(int f, size_t a, size_t b, size_t c) {
    const bool ab = M[f][a * N + b], bc = M[f][b * N + c], ac = M[f][a * N + c];
    if (ab && bc && !ac) vh::violation(std::string("transitivity: ") + FN[f], describe(a) + " < " + describe(b) + " < " + describe(c));
    const bool ba = M[f][b * N + a], cb = M[f][c * N + b], ca = M[f][c * N + a];
    if (!ab && !ba && !bc && !cb && (ac || ca)) vh::violation(std::string("transitivity of incomparability: ") + FN[f], describe(a) + " ~ " + describe(b) + " ~ " + describe(c));
}

void case_axioms(uint64_t a, vh::Rng& rng) {
    vh::set_case_desc("axioms a=%s", describe(a).c_str());
    uint64_t pairs = 0, triples = 0;
    for (int f = 0; f < NF; ++f) {
        for (int regime = 0; regime < 2; ++regime) {
            if (f == 2 && regime == 1) continue;
            if (!in_regime(f, regime, a)) continue;
            std::vector<size_t> dom;
            for (size_t i = 0; i < N; ++i) if (in_regime(f, regime, i)) dom.push_back(i);
            for (size_t b : dom) { check_pair(f, a, b); ++pairs; }
            if (vh::thorough()) {
                for (size_t b : dom) for (size_t c : dom) { check_triple(f, a, b, c); }
                triples += dom.size() * dom.size();
            } else {
                const int n = 1500;
                for (int k = 0; k < n; ++k) check_triple(f, a, rng.pick(dom), rng.pick(dom));
                triples += n;
            }
        }
    }
    vh::evaluated(pairs + triples);
    vh::count("pairs", pairs);
    vh::count("triples", triples);
    vh::count("distinct_by_construction", pairs + (vh::thorough() ? triples : 0));
    if (a % 100 == 0) vh::sample_str("a=" + describe(a) + " compared with all b (and triples a,b,c) under all 4 comparators");
}

// ---- CheckOrder

struct TI { int type; int64_t id; };
std::vector<TI> ti_grid;
osmium::memory::Buffer* ti_buffer = nullptr;
std::vector<const osmium::OSMObject*> ti_objs;

void build_ti() {
    for (int t = 0; t < 3; ++t) for (int64_t id : IDS) ti_grid.push_back(TI{t, id});
    ti_buffer = new osmium::memory::Buffer{64UL * 1024UL, osmium::memory::Buffer::auto_grow::yes};
    for (auto& g : ti_grid) add_object(*ti_buffer, Attr{g.type, g.id, 1, 0, true});
    for (auto& o : ti_buffer->select<osmium::OSMObject>()) ti_objs.push_back(&o);
}

bool run_check_order(const std::vector<size_t>& seq, std::string* what) {
    osmium::handler::CheckOrder co;
    try {
        for (size_t i : seq) {
            const auto* o = ti_objs[i];
            switch (o->type()) {
                case osmium::item_type::node: co.node(static_cast<const osmium::Node&>(*o)); break;
                case osmium::item_type::way: co.way(static_cast<const osmium::Way&>(*o)); break;
                default: co.relation(static_cast<const osmium::Relation&>(*o)); break;
            }
        }
    } catch (const osmium::out_of_order_error& e) {
        if (what) *what = e.what();
        return false;
    }
    return true;
}

bool ref_sorted(const std::vector<size_t>& seq) {
    for (size_t k = 1; k < seq.size(); ++k) {
        const TI &p = ti_grid[seq[k - 1]], &q = ti_grid[seq[k]];
        auto kp = std::make_tuple(p.type, idrank(p.id)), kq = std::make_tuple(q.type, idrank(q.id));
        if (!(kp < kq)) return false;
    }
    return true;
}

std::string seqstr(const std::vector<size_t>& seq) {
    std::string s;
    for (size_t i : seq) s += vh::fmt("%c%" PRId64 " ", "nwr"[ti_grid[i].type], ti_grid[i].id);
    return s;
}

// case i: sequences whose first element is i%27 and length = 1 + i/27 ... we
// enumerate by first two elements to get ~27*27 cases
void case_checkorder(uint64_t idx, vh::Rng&) {
    const size_t G = ti_grid.size();
    const size_t a = idx / G, b = idx % G;
    vh::set_case_desc("checkorder prefix=%s", seqstr({a, b}).c_str());
    uint64_t n = 0, accepted = 0;
    auto test = [&](const std::vector<size_t>& seq) {
        std::string what;
        const bool acc = run_check_order(seq, &what);
        const bool exp = ref_sorted(seq);
        ++n; accepted += acc;
        if (acc != exp) vh::violation(acc ? "CheckOrder accepts an unsorted stream" : "CheckOrder rejects a strictly sorted stream", seqstr(seq) + (what.empty() ? "" : " : " + what));
    };
    if (b == 0) test({a});
    test({a, b});
    for (size_t c = 0; c < G; ++c) {
        test({a, b, c});
        for (size_t d = 0; d < G; ++d) test({a, b, c, d});
    }
    vh::evaluated(n);
    vh::count("checkorder_sequences", n);
    vh::count("checkorder_accepted", accepted);
    vh::count("distinct_by_construction", n);
    if (idx % 97 == 0) vh::sample_str("CheckOrder on all sequences (len<=4) starting with " + seqstr({a, b}));
}

// ---- sort then check

void case_sort(uint64_t, vh::Rng& rng) {
    // random collection of objects with random attributes near the boundaries
    const size_t n = 1 + rng.below(40);
    osmium::memory::Buffer buf{64UL * 1024UL, osmium::memory::Buffer::auto_grow::yes};
    std::vector<Attr> as;
    const bool distinct_ids = rng.coin();
    std::set<std::pair<int, int64_t>> seen;
    uint64_t h = 0;
    for (size_t i = 0; i < n; ++i) {
        Attr a;
        a.type = static_cast<int>(rng.below(3));
        switch (rng.below(3)) {
            case 0: a.id = rng.pick(IDS); break;
            case 1: a.id = rng.range(-5, 5); break;
            default: a.id = static_cast<int64_t>(rng.next()); if (a.id == std::numeric_limits<int64_t>::min()) a.id = 7; break;
        }
        a.version = rng.coin() ? rng.pick(VERSIONS) : static_cast<uint32_t>(rng.below(4));
        a.ts = 1 + static_cast<uint32_t>(rng.below(3));  // all set
        a.visible = rng.coin();
        if (distinct_ids && !seen.insert({a.type, a.id}).second) continue;
        as.push_back(a);
        add_object(buf, a);
        h = vh::hash_u64(static_cast<uint64_t>(a.id) * 31 + a.type * 7 + a.version, h);
    }
    vh::set_case_desc("sort n=%zu distinct=%d", as.size(), distinct_ids);
    for (int f = 1; f < NF; ++f) {
        osmium::ObjectPointerCollection coll;
        osmium::apply(buf, coll);
        // shuffle
        std::vector<osmium::OSMObject*> v(coll.ptr_begin(), coll.ptr_end());
        if (coll.size() != as.size()) vh::violation("ObjectPointerCollection did not collect every object", "");
        for (size_t i = v.size(); i > 1; --i) std::swap(*(coll.ptr_begin() + (i - 1)), *(coll.ptr_begin() + rng.below(i)));
        switch (f) {
            case 1: coll.sort(osmium::object_order_type_id_version{}); break;
            case 2: coll.sort(osmium::object_order_type_id_version_without_timestamp{}); break;
            default: coll.sort(osmium::object_order_type_id_reverse_version{}); break;
        }
        // sorted by reference?
        std::vector<const osmium::OSMObject*> out;
        for (auto it = coll.cbegin(); it != coll.cend(); ++it) out.push_back(&*it);
        if (out.size() != as.size()) vh::violation("sort changed the number of objects", "");
        for (size_t k = 1; k < out.size(); ++k) {
            Attr p{int(out[k - 1]->type()) - 1, out[k - 1]->id(), out[k - 1]->version(), uint32_t(out[k - 1]->timestamp()), out[k - 1]->visible()};
            Attr q{int(out[k]->type()) - 1, out[k]->id(), out[k]->version(), uint32_t(out[k]->timestamp()), out[k]->visible()};
            bool bad;
            if (f == 3) bad = tikey(q) < tikey(p) || (tikey(p) == tikey(q) && q.version > p.version);
            else bad = refkey(q, f == 1) < refkey(p, f == 1);
            if (bad) vh::violation(std::string("sorted collection not in documented order: ") + FN[f], vh::fmt("pos %zu", k));
        }
        if (distinct_ids) {
            osmium::handler::CheckOrder co;
            try {
                osmium::apply(coll.cbegin(), coll.cend(), co);
                vh::count("sorted_streams_accepted");
            } catch (const osmium::out_of_order_error& e) {
                vh::violation(std::string("CheckOrder rejects a stream sorted with ") + FN[f], e.what());
            }
        } else {
            // unique by (type,id) after reverse-version sort keeps the newest version of each object
            if (f == 3) {
                coll.unique(osmium::object_equal_type_id{});
                std::map<std::pair<int, int64_t>, uint32_t> newest;
                for (auto& a : as) { auto& m = newest[{a.type, a.id}]; if (a.version > m) m = a.version; }
                if (coll.size() != newest.size()) vh::violation("unique(object_equal_type_id) wrong size", vh::fmt("%zu vs %zu", coll.size(), newest.size()));
                for (auto it = coll.cbegin(); it != coll.cend(); ++it) {
                    auto m = newest.find({int(it->type()) - 1, it->id()});
                    if (m == newest.end() || m->second != it->version()) { vh::violation("unique after reverse-version sort does not keep the newest version", vh::fmt("id %" PRId64 " v%u", it->id(), it->version())); break; }
                }
                vh::count("unique_checked");
            }
        }
    }
    vh::evaluated();
    vh::distinct(h);
    if (vh::st().samples.size() < 2) vh::sample_str(vh::fmt("sort+CheckOrder on %zu random objects, distinct_ids=%d", as.size(), distinct_ids));
}

} // namespace

int main(int argc, char** argv) {
    vh::parse_args(argc, argv);
    const std::string mode = vh::arg("mode", "axioms");
    if (mode == "axioms") {
        build_grid();
        compute_matrices();
        return vh::run_cases(argc, argv, attrs.size(), case_axioms);
    }
    if (mode == "checkorder") {
        build_ti();
        return vh::run_cases(argc, argv, ti_grid.size() * ti_grid.size(), case_checkorder);
    }
    return vh::run_cases(argc, argv, 2000, case_sort);
}
